// hardware litmus: the real asymmetric_spinLock (unity include of thread.cpp), two OS threads, real CPU
#include <thread/thread.cpp>
#include <thread>
#include <atomic>
#include <cstdio>
using namespace photon;
int main(int argc, char** argv) {
    int secs = argc > 1 ? atoi(argv[1]) : 5;
    static asymmetric_spinLock L; static volatile int owner = 0; static std::atomic<long> overlaps{0}, fgs{0}, bgs{0}; static std::atomic<bool> stop{false};
    std::thread f([&] { while (!stop) { L.foreground_lock(); owner = 1; for (volatile int k = 0; k < 2; k++); if (owner != 1) overlaps++; L.foreground_unlock(); fgs++; } });
    std::thread b([&] { while (!stop) { if (L.background_try_lock()) { owner = 2; for (volatile int k = 0; k < 2; k++); if (owner != 2) overlaps++; L.background_unlock(); bgs++; } } });
    std::this_thread::sleep_for(std::chrono::seconds(secs)); stop = true; f.join(); b.join();
    printf("foreground sections=%ld background sections=%ld OVERLAPS=%ld\n", fgs.load(), bgs.load(), overlaps.load());
    return overlaps ? 1 : 0;
}
