#!/bin/bash
# usage: tools/try_seed.sh <ID> [tier] [seed-dir-name]   runs ./check <ID> against a scratch copy of /repo with seeded/<name>/patch.diff applied
ID=$1; TIER=${2:-quick}; NAME=${3:-$ID}
S=/verif/seeded/$NAME
[ -f $S/patch.diff ] || { echo "no $S/patch.diff"; exit 2; }
W=/tmp/seedrepo-$NAME
rm -rf $W; rsync -a --exclude _build --exclude .git /repo/ $W/ || exit 2
(cd $W && patch -p1 -s < $S/patch.diff) || { echo "PATCH FAILED"; rm -rf $W; exit 2; }
cd /verif
cp -f evidence/$ID.json /tmp/evidence-$ID.bak 2>/dev/null     # the evidence file describes the unchanged tree: keep it
PMC_REPO=$W timeout 3000 ./check $ID --tier $TIER > /tmp/seedrun-$NAME.log 2>&1; rc=$?
grep -E "^VIOLATION|^KNOWN|^BROKEN|^\[$ID\]" /tmp/seedrun-$NAME.log | cut -c1-260
echo "exit=$rc"
rm -rf $W
[ -f /tmp/evidence-$ID.bak ] && mv -f /tmp/evidence-$ID.bak evidence/$ID.json
rm -f /verif/replays/$ID-*
exit $rc
