#!/usr/bin/env python3
"""Regenerates /verif/MANIFEST.json from the table below (keeps it schema-valid)."""
import json, os
V = os.path.dirname(os.path.dirname(os.path.abspath(__file__)))
ids = [json.loads(l)['id'] for l in open(os.path.join(V, 'properties.jsonl'))]

CLAIMED = {
 # id: (level, technique, text, note, design_ref)
 "C01": ("model_checking", "stateless preemption-bounded exploration of the real mutex/spinlock code under a controlled scheduler (TSan-ABI hooks at every atomic/volatile op)",
         "every interleaving with <=1 (quick) / <=2-3 (thorough) preemptions plus <=1 time deviation of 2-3 photon threads on 2-3 vCPUs doing lock/timed lock/try_lock/unlock/interrupt on mutex, recursive_mutex; spinlock/ticket/qspinlock between 2-3 OS threads up to 4-8 preemptions; oracle: critical-section occupancy, return value vs owner, failed lock owns nothing, no deadlock, not left locked",
         "SC interleavings only (no store buffers); plain accesses are not scheduling points; bounded thread counts and preemptions", "3 C01"),
 "C09": ("model_checking", "exhaustive enumeration of program shapes / arrival orders / timeout positions on the real channel code (single vCPU, virtual clock) + preemption-bounded exploration on 2-3 vCPUs under the controlled scheduler",
         "all arrival orders (0..2 yield paddings per op) of <=4 actors x <=2 ops, capacities 0/1/2, blocking/timed/try ops, close, with <=1 (quick) / <=2 (thorough) timeouts landing at arbitrary points; oracle: value conservation, per-sender order, false only for close/timeout, nobody blocked while a partner/slot/item exists",
         "go_sv: one vCPU, virtual clock; go_xv: blocking / timed / try senders, receivers and a closer on 2-3 vCPUs, capacities 0/1/2, <=1-2 / <=2-3 preemptions, SC interleavings; the deadlock outcome is judged against the channel state (lost wake-ups)", "3 C09"),
 "C15": ("exploration", "bounded-exhaustive enumeration of (offset,length,interval) against a byte-walk reference",
         "complete over intervals 1..9/12, powers of two 2^0..2^4/5 and boundary relations at 2^20/2^32/2^62, all key-point lists with gaps {1,2,3} up to 4/5 blocks; part list, class definitions (small note / preface / aligned parts / postface), aligned begin/end",
         "offset+length+interval < 2^64; NDEBUG build", "3 C15"),
}
NA_REASON = "harness still being built at the time of this commit (see DESIGN.md section 3); no weaker technique is substituted"
extra = os.path.join(V, 'tools', 'manifest_extra.json')
if os.path.exists(extra):
    for k, v in json.load(open(extra)).items():
        CLAIMED[k] = tuple(v)

def flavors(pid):
    try:
        return set(t["flavor"] for t in json.load(open(os.path.join(V, "harness", pid, "targets.json")))["targets"])
    except Exception:
        return set()
def serves(fl):
    return [i for i in ids if i in CLAIMED and fl in flavors(i)]
import subprocess
HOOK_COMMITS = [l.split()[0] for l in subprocess.run(["git", "-C", "/repo", "log", "--format=%H %s"], capture_output=True, text=True).stdout.splitlines() if " verif hook:" in " " + l]
checks = []
for i in ids:
    if i not in CLAIMED: continue
    level, tech, text, note, ref = CLAIMED[i]
    checks.append({"property_id": i, "quick_cmd": "./check %s --tier quick" % i, "thorough_cmd": "./check %s --tier thorough" % i,
                   "evidence_file": "/verif/evidence/%s.json" % i, "replay_cmd_template": "./check %s --replay {path}" % i,
                   "engine": "pmc", "level_claimed": {"category": level, "text": text, "design_ref": "DESIGN.md " + ref},
                   "level_note": note, "technique": tech})
m = {"version": 1, "setup_cmd": "make -C /verif/engine",
     "hooks": {"guard": "PHOTON_VERIF", "enable": "checks compile /repo sources directly with clang (ASan, or the TSan pass with our own runtime) and interpose libc at link level; the guarded source hooks (a scheduling point before a context switch saves the outgoing context; WorkPool busy-yield phases skipped; TSC not consulted) are enabled with -DPHOTON_VERIF per target (repo_cflags in harness/<id>/targets.json: C05, C08 and the targets with :tso configs)",
               "baseline_off_cmd": "ctest --test-dir /repo/_build -j8 --timeout 900", "source_commits": HOOK_COMMITS, "add_only": True},
     "engines": [
        {"name": "core", "path": "engine/explorer.cpp", "serves_properties": [i for i in ids if i in CLAIMED and (flavors(i) & {"mv", "sv"})], "kind_free_text": "stateless deviation-bounded exhaustive explorer (choice-sequence DFS, levels by deviation count, deterministic replay)"},
        {"name": "mv", "path": "engine/mv_rt.cpp", "serves_properties": serves("mv"), "kind_free_text": "controlled scheduler for OS threads/vCPUs: scheduling point at every atomic/volatile op via the TSan ABI, virtual clock, modelled pthread blocking"},
        {"name": "sv", "path": "engine/sv_rt.cpp", "serves_properties": serves("sv"), "kind_free_text": "single-vCPU runtime: virtual clock, model event engine, deadlock detection, ASan"},
        {"name": "seqx", "path": "engine/seqx.h", "serves_properties": serves("seqx"), "kind_free_text": "bounded-exhaustive enumeration against reference models, sharded, crash capture, ASan"}],
     "checks": checks,
     "notes": "see DESIGN.md; known findings in known_findings.json",
     "not_applicable": [{"property_id": i, "reason": NA_REASON} for i in ids if i not in CLAIMED]}
json.dump(m, open(os.path.join(V, 'MANIFEST.json'), 'w'), indent=1)
print("claimed:", [c["property_id"] for c in checks])
