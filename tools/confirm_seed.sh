#!/bin/bash
# usage: tools/confirm_seed.sh <ID> [name]  -- independent confirmation of a seeded change in a scratch worktree:
#   builds everything with the patch, runs the whole pinned test suite (must fail only the baseline's always-failing binaries),
#   runs the demonstration with the patch (must fail) and without it (must pass). Result in seeded/<name>/confirm.log
ID=$1; NAME=${2:-$ID}; S=/verif/seeded/$NAME; WT=/tmp/wt-$NAME; LOG=$S/confirm.log
BASE_FAIL="client_function_test test-checksum test-iouring test-ipv6 test-rpc-message test-socket test-throttle"
exec > $LOG 2>&1
echo "== confirm $NAME $(date)"
git -C /repo worktree remove --force $WT 2>/dev/null; rm -rf $WT
/tmp/mk_worktree.sh $WT || exit 2
cd $WT && git apply $S/patch.diff || { echo "APPLY FAILED"; exit 2; }
echo "== build with patch"; timeout 3000 cmake --build $WT/_build -- -j12 2>&1 | tail -2 || exit 2
echo "== full test suite with patch"
timeout 3000 ctest --test-dir $WT/_build -j8 --timeout 900 2>&1 | grep -E "tests passed|Failed|SEGFAULT|SIGTRAP|Timeout|Exception" | sort > $S/ctest_with_patch.txt
FAILED=$(grep -E "^\s+[0-9]+ - " $S/ctest_with_patch.txt | awk '{print $3}' | sort | tr '\n' ' ')
echo "failing test binaries: $FAILED"; echo "baseline always-failing: $BASE_FAIL"
EXTRA=""; for t in $FAILED; do echo " $BASE_FAIL " | grep -q " $t " || EXTRA="$EXTRA $t"; done
echo "SUITE_EXTRA_FAILURES=[$EXTRA ]"
# a test that failed in the parallel (loaded) run is re-run alone: timing-sensitive tests fail under load with or without a patch
STILL=""
for t in $EXTRA; do
  ok=0; for k in 1 2 3; do if timeout 1500 ctest --test-dir $WT/_build -R "^$t\$" --timeout 900 --output-on-failure > $S/rerun_$t.txt 2>&1; then ok=1; break; fi; done
  if [ $ok = 1 ]; then echo "rerun alone: $t PASSED (load-sensitive in the parallel run)"; else echo "rerun alone: $t FAILED 3 times; failing cases: $(grep -E "^\[  FAILED  \] [A-Za-z_]+\.[A-Za-z_0-9]+" $S/rerun_$t.txt | sort -u | tr "\n" " ")"; STILL="$STILL $t"; fi
done
echo "SUITE_FAILURES_AFTER_RERUN=[$STILL ]"
echo "== demo with patch (expected: fails)"
mkdir -p $WT/demo; cp $S/demo* $S/build.sh $WT/demo/ 2>/dev/null; cp $S/*.cpp $S/*.h $WT/demo/ 2>/dev/null
(cd $WT/demo && timeout 900 bash ./build.sh) > $S/demo_with_patch.txt 2>&1; RC1=$?
tail -5 $S/demo_with_patch.txt; echo "DEMO_WITH_PATCH_RC=$RC1"
echo "== demo without patch (expected: passes)"
cd $WT && git apply -R $S/patch.diff && timeout 3000 cmake --build $WT/_build --target photon_shared photon_static -- -j12 2>&1 | tail -1
(cd $WT/demo && timeout 900 bash ./build.sh) > $S/demo_without_patch.txt 2>&1; RC2=$?
tail -5 $S/demo_without_patch.txt; echo "DEMO_WITHOUT_PATCH_RC=$RC2"
cd /; git -C /repo worktree remove --force $WT; git -C /repo worktree prune
echo "== done $(date)"
