#!/bin/bash
# usage: tools/confirm_seed_inc.sh <name> <ctest-regex>   -- confirmation of a seeded change in the shared scratch worktree /tmp/wt-confirm
#   (created and fully built once by the caller: /tmp/mk_worktree.sh /tmp/wt-confirm && cmake --build /tmp/wt-confirm/_build):
#   applies the patch, rebuilds everything incrementally (library and every test binary), runs the test binaries selected by the regex
#   (those that exercise the touched files) and the demonstration (must fail), reverts, rebuilds, runs the demonstration again (must pass).
NAME=$1; RE=$2; S=/verif/seeded/$NAME; WT=/tmp/wt-confirm; LOG=$S/confirm.log
exec > $LOG 2>&1
echo "== confirm (incremental, shared worktree) $NAME $(date)"
cd $WT && git apply $S/patch.diff || { echo "APPLY FAILED"; exit 2; }
echo "== build with patch (all targets)"; timeout 3000 cmake --build $WT/_build -- -j12 2>&1 | tail -2
echo "== tests with patch: ctest -R '$RE'"
timeout 3000 ctest --test-dir $WT/_build -R "$RE" -j4 --timeout 900 2>&1 | grep -E "Test +#|tests passed|Failed|SEGFAULT|Timeout" | sort > $S/ctest_with_patch.txt
cat $S/ctest_with_patch.txt
echo "== demo with patch (expected: fails)"
rm -rf $WT/demo; mkdir -p $WT/demo; cp $S/demo* $S/build.sh $WT/demo/ 2>/dev/null; cp $S/*.cpp $S/*.h $WT/demo/ 2>/dev/null
sed -i "s#/tmp/wt-$NAME#$WT#g" $WT/demo/*
(cd $WT/demo && WT=$WT timeout 900 bash ./build.sh) > $S/demo_with_patch.txt 2>&1; RC1=$?
tail -5 $S/demo_with_patch.txt; echo "DEMO_WITH_PATCH_RC=$RC1"
echo "== demo without patch (expected: passes)"
cd $WT && git apply -R $S/patch.diff && timeout 3000 cmake --build $WT/_build -- -j12 2>&1 | tail -1
(cd $WT/demo && WT=$WT timeout 900 bash ./build.sh) > $S/demo_without_patch.txt 2>&1; RC2=$?
tail -5 $S/demo_without_patch.txt; echo "DEMO_WITHOUT_PATCH_RC=$RC2"
rm -rf $WT/demo
echo "== done $(date)"
