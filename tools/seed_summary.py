#!/usr/bin/env python3
"""Writes seeded/<name>/verification.json from confirm.log (independent confirmation in a scratch worktree) and the detection table below."""
import json, os, re, glob
V = os.path.dirname(os.path.dirname(os.path.abspath(__file__)))
DETECT = {   # name: (check id, caught by (target signature config), first result)
 "C01": ("C01", "mutex_xv failed-lock-owns (m0n:pL,pL,ppi0 ...; generated m0n:gen2x2)", "missed at first; caught after adding one-vCPU arrival-order configs"),
 "C01b": ("C01", "mutex_xv left-locked / failed-lock-owns (m0n:H|T:tdev)", "missed at first in the quick tier; caught after adding the hold-while-sleeping op H"),
 "C02": ("C02", "sem_xv lost-wakeup (0i:t2,w1|s1:tdev, 0i:pt2,pw1,ps1:tdev, generated 0i:gen3x1)", "missed at first; caught after adding unequal-demand timed configs"),
 "C02b": ("C02", "sem_xv poisoned-access (0i:D|d0, 0i:D|@d0)", "caught at once"),
 "C03": ("C03", "cv_xv wait-failed-without-reason (m:pW,pW,ph, generated m:gen3x1)", "missed at first; caught after adding the hold-after-notify op h"),
 "C03b": ("C03", "cv_xv notify_one-null (m:T,W|N:tdev, m:W,W|N|N)", "missed at first; caught after adding racing-notifier configs"),
 "C04": ("C04", "sleep_xv finite-sleeper-never-woke (S2|i0:tdev)", "caught at once"),
 "C04b": ("C04", "sleep_prog stale-interrupt-after-full-sleep (k2s2w, k3s1w)", "missed at first; caught after adding wait-queue sleeps"),
 "C05": ("C05", "life_xv join-before-finish (0f:yI0y,y|, 0f:yy|I0y)", "missed at first; caught after adding the joiner-interrupt op"),
 "C05b": ("C05", "life_xv thread-lost-or-stuck (0f:M1,y|X1)", "missed at first; caught after adding early-exit vCPUs"),
 "C06": ("C06", "rw_xv reader-admitted-late", "missed at first; caught after adding the hold op and the readers-admitted-together oracle"),
 "C06b": ("C06", "rw_xv blocked-forever (q:pW,pR,pw,ph, generated q:gen4x1)", "missed at first; caught after adding the writer-gives-up config / generated programs"),
 "C07": ("C07", "chan_xv timed-recheck-needed", "caught at once"),
 "C07b": ("C07", "chan_xv timed-recheck-needed (M:sss,Zrrr, M:sss|Zrrr)", "missed at first; caught after adding the two-phase timed re-check configs"),
 "C08": ("C08", "wp_xv pool-destroyed-before-task-finished (0T1:az ...)", "missed at first; caught after adding joined worker vCPUs"),
 "C08b": ("C08", "wp_xv call-returned-early (generated 1p2:gen3x1, 0T1:gen2x2)", "missed at first; caught after adding the interrupt op"),
 "C09": ("C09", "go_sv value-lost", "caught at once"),
 "C09b": ("C09", "go_xv lost-wakeup (2:s,s|r,r)", "caught at once"),
 "C10": ("C10", "sock_sv lost-read-event (cap2:w4:r:d)", "caught at once"),
 "C10b": ("C10", "sock_sv bytes-corrupted (cap2:v6:x ...)", "caught at once"),
 "C11": ("C11", "rpc_sv asan:use-after-poison", "caught at once"),
 "C11b": ("C11", "rpc_sv wrong-response (n3:iii, n3:isl)", "missed at first; caught after adding the fault EOF-inside-body"),
 "C12": ("C12", "ser field-outside-input", "caught at once"),
 "C13": ("C13", "http truncated-body-not-a-payload-prefix / endless-loop", "caught at once"),
 "C14": ("C14", "single/seq asan:heap-buffer-overflow, slice:bytes", "caught at once"),
 "C15": ("C15", "rsplit all_parts-endless", "caught at once"),
 "C16": ("C16", "aligned aligned:final-content / aligned:read-data", "caught at once"),
 "C17": ("C17", "cache_sv wrong-bytes (conc-q, variant rep1...)", "missed at first; caught after adding partly-warm cache states"),
 "C17b": ("C17", "cache_sv wrong-count (conc-q)", "caught at once"),
 "C18": ("C18", "rl_xv overlap (L?yA?yU,L?yyU)", "missed at first; caught after adding adjust-while-held configs"),
 "C18b": ("C18", "rl_xv overlap / crash:SIGSEGV", "caught at once"),
 "C19": ("C19", "oc_xv destroyed-while-borrowed", "missed at first; caught after adding the slow-failing constructor op"),
 "C19b": ("C19", "oc_xv destroyed-while-borrowed / poisoned-access (a0R0|a0yr0|yi0)", "missed at first; caught after adding the interrupt op"),
 "C01c": ("C01", "mutex_xv mutual-exclusion (generated m0c:gen2x2, m0c:pLL,pL,pL)", "missed at first; caught after adding contending-mode generated programs"),
 "C02c": ("C02", "sem_xv lost-wakeup (generated 0o:gen3x1)", "caught at once"),
 "C03c": ("C03", "cv_xv notification-overwritten-by-interrupt (m:pW,pW,pA,ppi0i1, generated m:gen3x1)", "missed at first; caught after adding the interrupt op"),
 "C06c": ("C06", "rw_xv blocked-forever (q:W|w:tdev, q:W|x,s)", "caught at once"),
 "C19c": ("C19", "oc_xv recycle-wrong-object (generated gen3x1, gen2x2)", "caught at once"),
 "C20": ("C20", "subfs escape", "caught at once"),
 "C09c": ("C09", "go_sv blocked-with-partner (cap0:S1,S1,R1,R1:b:pad2), go_xv lost-wakeup (0:s,s|r,r)", "caught at once"),
 "C10c": ("C10", "sock_sv lost-write-event (cap2:s4:c:d:et)", "caught at once (same change as own-C10-et, found independently)"),
 "C11c": ("C11", "skel_sv response-bytes-interleaved (n2, n3)", "missed at first (no server-side harness); caught after adding the target skel_sv"),
 "C12b": ("C12", "ser field-outside-input / asan:heap-buffer-overflow", "caught at once"),
 "C13b": ("C13", "http written-message-rejected / written-body-read-back-differs / truncated-body-not-a-payload-prefix; http_rxbuf_nonul valid-message-rejected", "caught at once"),
 "C14b": ("C14", "seq memcpy_to_buf:return / memcpy_from_buf:return / pipe_to_iovector:return / pipe_from_iovector:return", "caught at once"),
 "C15b": ("C15", "rsplit class-small_note / aligned_parts-endless / all_parts-endless / empty-range-nonempty-part", "caught at once (through the empty range and the part lists); class-definition oracle added for the misclassification itself"),
 "C16b": ("C16", "composite linear:read-count / linear:write-count / stripe:read-count / stripe:write-count", "caught at once"),
 "C20b": ("C20", "subfs escape", "caught at once"),
 "C05c": ("C05", "tpool_xv thread-lost-or-stuck (2:jnpWpjypJpJ)", "missed at first; caught after adding the worker-interrupt op W"),
 "C18c": ("C18", "rl_xv waiter-stuck / index-not-empty (M|L2U, M,pL2U,pL9U)", "missed at first; caught after adding the ranged-unlock op M"),
 "C17c": ("C17", "NOT CAUGHT (open gap)", "missed; needs an evict-to-end inside the file after a whole-file evict, then reuse"),
 "C07c": ("C07", "chan_xv timed-recheck-needed (F:r|s, F:rrr|sss)", "caught at once"),
 "C08c": ("C08", "NOT CAUGHT (open gap)", "missed; needs ~WorkPool on a plain OS thread with a joined worker vCPU"),
 "C04c": ("C04", "sleep_prog sleep-returned-later-interrupts-errno (k2s2, k3s1, k2s2w, k3s1w, k2s2d, k3s1d)", "missed at first; caught after adding the first-interrupt-wins oracle"),
}
for d in sorted(glob.glob(os.path.join(V, "seeded", "C*"))):
    name = os.path.basename(d)
    out = {"seed": name, "origin": "independent sub-agent given only the property text and a scratch worktree"}
    log = os.path.join(d, "confirm.log")
    if os.path.exists(log):
        t = open(log, errors="replace").read()
        m = re.search(r"SUITE_EXTRA_FAILURES=\[(.*?)\]", t); out["suite_extra_failures_in_parallel_run"] = m.group(1).split() if m else None
        m = re.search(r"SUITE_FAILURES_AFTER_RERUN=\[(.*?)\]", t); out["suite_failures_after_rerunning_alone"] = m.group(1).split() if m else "not re-run (older script)"
        m = re.search(r"DEMO_WITH_PATCH_RC=(\d+)", t); out["demo_exit_with_patch"] = int(m.group(1)) if m else None
        m = re.search(r"DEMO_WITHOUT_PATCH_RC=(\d+)", t); out["demo_exit_without_patch"] = int(m.group(1)) if m else None
        # some build.sh scripts print the demo's own exit code and return 0 themselves
        for key, fn in (("demo_exit_with_patch", "demo_with_patch.txt"), ("demo_exit_without_patch", "demo_without_patch.txt")):
            fp = os.path.join(d, fn)
            if os.path.exists(fp):
                mm = re.findall(r"demo exit code: (\d+)", open(fp, errors="replace").read())
                if mm: out[key] = int(mm[-1])
        if "confirm (incremental" in t:
            out.pop("suite_extra_failures_in_parallel_run", None); out.pop("suite_failures_after_rerunning_alone", None)
            m = re.search(r"ctest -R '(.*?)'", t); out["tests_run_with_patch"] = m.group(1) if m else None
            m = re.search(r"(\d+)% tests passed, (\d+) tests failed out of (\d+)", t); out["tests_result_with_patch"] = m.group(0) if m else None
            out["confirmed_by"] = "tools/confirm_seed_inc.sh: everything rebuilt with the patch in a scratch worktree, the test binaries that exercise the touched files run (selected by the regex; the sub-agent's own runs are listed in meta.json), demo fails with / passes without the patch"
        else:
            out["confirmed_by"] = "tools/confirm_seed.sh: full pinned suite with the patch in a scratch worktree (fails only the baseline's always-failing binaries), demo fails with / passes without the patch"
    else:
        out["confirmed_by"] = "pending (confirm_seed.sh not run yet)"
    if name in DETECT:
        out["checked_with"] = "tools/try_seed.sh %s quick %s" % (DETECT[name][0], name)
        out["caught_by"] = DETECT[name][1]; out["history"] = DETECT[name][2]
    json.dump(out, open(os.path.join(d, "verification.json"), "w"), indent=1)
print("ok")
