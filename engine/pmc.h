// pmc.h -- the interface between harnesses and the explorer (engine/explorer.cpp).
// An *execution* is one run of pmc_run(config) in a forked child, driven by a choice sequence.
#pragma once
#include <stdint.h>
#include <stddef.h>
#ifdef __cplusplus
extern "C" {
#endif

enum { PMC_SCHED = 0, PMC_TIME = 1, PMC_ENV = 2, PMC_PROG = 3 };

// Ask the explorer which of n answers the world gives here. Answer 0 is the default.
// cost = what a non-default answer costs in its kind's deviation budget (0 or 1).
// While replaying a prefix, (n, kind) must match the recorded point, else NONDETERMINISM.
int pmc_choose(int n, int kind, int cost, const char* label);

// Append to the canonical observation string of this execution (what the outcome *was*).
void pmc_obs(const char* fmt, ...) __attribute__((format(printf, 1, 2)));
// Free-form trace line, only printed in replay/verbose mode.
void pmc_log(const char* fmt, ...) __attribute__((format(printf, 1, 2)));
int pmc_verbose(void);

// Report a property violation and end the execution. `sig` is the signature class
// (stable across schedules, used to match known findings), detail is free text.
void pmc_violation(const char* sig, const char* fmt, ...) __attribute__((format(printf, 2, 3), noreturn));
// The harness/model itself is broken (not a property violation): check exits 2.
// history marker: prefixed to the signature of whatever violation / crash ends this execution (reset for every execution)
void pmc_tag(const char* tag);
void pmc_broken(const char* fmt, ...) __attribute__((format(printf, 1, 2), noreturn));
// Normal end of an execution (flushes, _exit(0)).
void pmc_done(void) __attribute__((noreturn));

// Recording window: choices made outside [begin,end) are not branched on (always default).
void pmc_window(int on);
// number of choice points so far in this execution
int pmc_npoints(void);
// State hash pruning hook: harness may supply a 64-bit hash of the complete state at a
// choice point; if (hash, remaining budget) was seen before, alternatives at later points
// are still explored but this point's subtree is skipped. Not used unless enabled per config.
void pmc_state_hash(uint64_t h);

typedef struct PmcConfig {
    const char* name;      // config name (unique within the binary)
    int tiers;             // bit0: quick, bit1: thorough
    int bound_sched[2];    // preemption bound   [quick, thorough]
    int bound_time[2];     // time deviations
    int bound_env[2];      // env deviations
    int max_total[2];      // cap on the sum of all deviations (<=0: no cap)
    const char* note;
} PmcConfig;

// Provided by the harness:
const PmcConfig* pmc_configs(int* n);
void pmc_run(const char* config);      // runs one execution; must end with pmc_done() or return
const char* pmc_property(void);        // "C01"
const char* pmc_target(void);          // harness target name, e.g. "mutex_xv"

// Provided by the explorer; harness main() calls it.
int pmc_main(int argc, char** argv);

#ifdef __cplusplus
}
#endif
