// mv_rt.cpp -- controlled scheduler runtime (DESIGN.md 2.2). Compiled WITHOUT instrumentation.
// One registered OS thread runs at a time (futex baton). Scheduling points: every __tsan_atomic* and
// __tsan_volatile_* call emitted by clang's TSan pass in the code under test, interposed pthread/libc
// blocking calls, and explicit mv_yield(). Plain-access hooks (__tsan_read/write) only feed the poison map.
#include "mv.h"
#include <stdio.h>
#include <stdlib.h>
#include <string.h>
#include <errno.h>
#include <unistd.h>
#include <time.h>
#include <dlfcn.h>
#include <sched.h>
#include <sys/time.h>
#include <sys/syscall.h>
#include <sys/prctl.h>
#include <signal.h>
#include <ucontext.h>
#include <linux/futex.h>
#include <limits.h>
#include <sys/mman.h>
#include <cxxabi.h>

namespace photon { extern volatile uint64_t now __attribute__((weak)); }

namespace {

enum { W_NONE = 0, W_SPIN, W_IDLE, W_JOIN, W_SLEEP, W_MUTEX, W_COND, W_DONE };
enum { MAXT = 32, NWATCH = 12, MAXMTX = 64, MAXPOISON = 64 };
const uint64_t FAR = 9ull * 1000 * 1000;       // deadlines >= now+9s count as "never" (idle vCPU with no sleeper)
const uint64_t NEVER = ~0ull;
const uint32_t FAIR_N = 4000;
const uint32_t TIME_N = 1500;
const uint32_t HISTN = 256, MAXPERIOD = 80;
const uint64_t TDEV_NEAR = 50000;

struct Watch { uintptr_t pc, addr; uint64_t val; uint8_t size, count; uint32_t seen; };

struct Th {
    int id; volatile uint32_t go; int wait;
    Watch w[NWATCH]; int nw; bool spinning_forced;
    mv_idle_cell* cell; uint64_t deadline; int join_target; void* obj; bool signaled;
    pthread_t pth; void* (*start)(void*); void* arg; void* ret; volatile bool done; bool yielding;
    char name[24]; void* stack; uint32_t ops; uint32_t consec; uint32_t alone; void* switching_from; uint64_t switch_mark_age;
    // TSO mode: a one-entry store buffer (an under-approximation of x86-TSO: every behaviour it produces is TSO-valid)
    struct { uintptr_t addr; uint64_t val; uint8_t size; bool on; uint32_t age; } sb;
    // polling-cycle detection: hashes of the last scheduling points (pc, address, value at the address) since this thread got the baton
    uint64_t hist[HISTN]; uint32_t hn; uint64_t cur_hash; bool periodic;
};

Th TH[MAXT]; int NT = 0;
bool active = false;
uint64_t vnow = MV_T0;
uint64_t npoints = 0;
int forced_spins = 0;
uint64_t time_heur = 0;    // clock advances decided by the polling heuristics (not proof that nobody could run)
uint64_t time_devs = 0;    // TIME deviations taken: the clock moved although some thread could have run (a stalled vCPU)
uint64_t time_jumps = 0;   // times the clock advanced because nothing could run (a quiescent state was reached)
int poll_rounds = 0;      // consecutive default switches away from threads found polling (see Th::periodic)
bool time_dev = false;
bool tso_mode = false;
bool switch_points = true;      // photon_verif_switch() is a scheduling point (default; off for targets built with -DPHOTON_VERIF only for the TSC hook)
uint64_t deadlines[32]; int ndeadlines = 0;
struct Mtx { void* addr; int owner; int depth; } MT[MAXMTX]; int NM = 0;
struct Poison { uintptr_t lo, hi; } PZ[MAXPOISON]; volatile int NP = 0;
struct Region { uintptr_t lo, hi; } RG[8]; volatile int NR = 0;     // plain accesses inside are scheduling points (mv_plain_region)
__thread Th* self = nullptr;

// the hooks run in the middle of the code under test (e.g. between `errno = ETIMEDOUT` and the unlock that follows it): they must not
// leave a trace in errno (a futex wait that finds the value changed returns EAGAIN, depending on real timing)
void futex_wait(volatile uint32_t* a, uint32_t v) { int e = errno; syscall(SYS_futex, a, FUTEX_WAIT_PRIVATE, v, nullptr, nullptr, 0); errno = e; }
void futex_wake(volatile uint32_t* a) { int e = errno; syscall(SYS_futex, a, FUTEX_WAKE_PRIVATE, 1, nullptr, nullptr, 0); errno = e; }

void sb_drain(Th* t) {
    if (!t->sb.on) return;
    switch (t->sb.size) {
        case 1: __atomic_store_n((volatile uint8_t*)t->sb.addr, (uint8_t)t->sb.val, __ATOMIC_SEQ_CST); break;
        case 2: __atomic_store_n((volatile uint16_t*)t->sb.addr, (uint16_t)t->sb.val, __ATOMIC_SEQ_CST); break;
        case 4: __atomic_store_n((volatile uint32_t*)t->sb.addr, (uint32_t)t->sb.val, __ATOMIC_SEQ_CST); break;
        default: __atomic_store_n((volatile uint64_t*)t->sb.addr, (uint64_t)t->sb.val, __ATOMIC_SEQ_CST); break;
    }
    t->sb.on = false;
}

void set_now(uint64_t t) { if (t > vnow) vnow = t; if (&photon::now) photon::now = vnow; }

uint64_t readval(uintptr_t a, int size) {
    switch (size) {
        case 1: return *(volatile uint8_t*)a;
        case 2: return *(volatile uint16_t*)a;
        case 4: return *(volatile uint32_t*)a;
        default: return *(volatile uint64_t*)a;
    }
}

Mtx* find_mtx(void* a, bool create) {
    for (int i = 0; i < NM; i++) if (MT[i].addr == a) return &MT[i];
    if (!create) return nullptr;
    for (int i = 0; i < NM; i++) if (MT[i].owner < 0) { MT[i].addr = a; MT[i].depth = 0; return &MT[i]; }
    if (NM >= MAXMTX) pmc_broken("mv: too many pthread mutexes");
    MT[NM].addr = a; MT[NM].owner = -1; MT[NM].depth = 0; return &MT[NM++];
}

bool is_enabled(Th* t) {
    switch (t->wait) {
        case W_NONE: return true;
        case W_SPIN:
            if (t->spinning_forced) return true;
            // only locations the loop re-reads (count>=2, touched recently) are wake-up conditions
            for (int i = 0; i < t->nw; i++) if (t->w[i].count >= 2 && t->ops - t->w[i].seen < 64 && readval(t->w[i].addr, t->w[i].size) != t->w[i].val) return true;
            return false;
        case W_IDLE: return t->cell->cancelled || vnow >= t->deadline;
        case W_SLEEP: return vnow >= t->deadline;
        case W_JOIN: return TH[t->join_target].done;
        case W_MUTEX: { Mtx* m = find_mtx(t->obj, false); return !m || m->owner < 0; }
        case W_COND: return t->signaled || vnow >= t->deadline;
        default: return false;
    }
}

const char* wname(int w) { static const char* n[] = {"run", "spin", "idle", "join", "sleep", "mutex", "cond", "done"}; return n[w]; }

void dump_state(char* buf, size_t n) {
    size_t k = snprintf(buf, n, "vnow=%llu threads:", (unsigned long long)(vnow - MV_T0));
    for (int i = 0; i < NT && k < n; i++) {
        Th* t = &TH[i];
        k += snprintf(buf + k, n - k, " T%d(%s)=%s", i, t->name, wname(t->wait));
        if (t->wait == W_SPIN && k < n) k += snprintf(buf + k, n - k, "@%lx", (unsigned long)(t->nw ? t->w[0].addr : 0));
        if ((t->wait == W_IDLE || t->wait == W_SLEEP || t->wait == W_COND) && k < n)
            k += snprintf(buf + k, n - k, t->deadline == NEVER ? "[inf]" : "[+%llu]", (unsigned long long)(t->deadline - vnow));
        if (t->wait == W_JOIN && k < n) k += snprintf(buf + k, n - k, "[T%d]", t->join_target);
    }
}

void default_deadlock(const char* dump) { pmc_violation("deadlock", "no thread can run and no deadline is pending: %s", dump); }

void wait_baton(Th* me) { while (me->go == 0) futex_wait(&me->go, 0); me->go = 0; }
void give_baton(Th* t) { t->go = 1; futex_wake(&t->go); }

// me holds the baton and has set me->wait. Returns when me holds the baton again and is enabled.
void schedule(Th* me, const char* what, uintptr_t addr, bool exiting = false) {
    npoints++;
    if (me->switching_from && strcmp(what, "prepare_switch") != 0) me->switching_from = nullptr;     // its context switch has completed
    if (me->sb.on && (me->wait != W_NONE || exiting || ++me->sb.age > 40)) sb_drain(me);             // store buffers drain eventually
    {   // the same sequence of points seeing the same values three times in a row = this thread is polling (e.g. "while (cond)
        // thread_yield()" on plain memory, which the per-address spin detector cannot see)
        uint64_t h = me->cur_hash ? me->cur_hash : ((uintptr_t)what * 0x9E3779B97F4A7C15ull) ^ addr; me->cur_hash = 0;
        if (me->hn == HISTN) { memmove(me->hist, me->hist + HISTN / 2, sizeof(uint64_t) * (HISTN / 2)); me->hn = HISTN / 2; }
        me->hist[me->hn++] = h; me->periodic = false;
        uint32_t n = me->hn;
        for (uint32_t P = 1; P <= MAXPERIOD && 3 * P <= n; P++) {
            if (me->hist[n - 1 - P] != h) continue;
            bool same = true; for (uint32_t k = 1; k <= 2 * P && same; k++) same = me->hist[n - k] == me->hist[n - k - P];
            if (same) { me->periodic = true; break; }
        }
    }
    for (;;) {
        Th* list[MAXT]; int n = 0;
        bool me_enabled = !exiting && is_enabled(me);
        // fairness of the default schedule: a thread that kept the baton for FAIR_N consecutive points while others could
        // run (a polling loop the spin detector does not recognise) is treated as yielding at this decision
        bool unfair = me->consec > FAIR_N || me->periodic;
        if (me_enabled && !me->yielding && !unfair) list[n++] = me;
        // others: round robin starting after me
        for (int k = 1; k < NT; k++) { Th* t = &TH[(me->id + k) % NT]; if (t != me && t->wait != W_DONE && is_enabled(t)) list[n++] = t; }
        if (me_enabled && (me->yielding || unfair)) list[n++] = me;
        if (n == 0) {
            // time passes: earliest near deadline
            uint64_t d = NEVER;
            for (int i = 0; i < NT; i++) { Th* t = &TH[i]; if ((t->wait == W_IDLE || t->wait == W_SLEEP || t->wait == W_COND) && t->deadline > vnow && t->deadline - vnow < FAR && t->deadline < d) d = t->deadline; }
            if (d != NEVER) { set_now(d); time_jumps++; continue; }
            bool any = false;
            if (forced_spins < 3000) for (int i = 0; i < NT; i++) if (TH[i].wait == W_SPIN) { TH[i].spinning_forced = true; any = true; }
            if (any) { forced_spins++; continue; }
            bool alldone = true; for (int i = 0; i < NT; i++) if (TH[i].wait != W_DONE) alldone = false;
            if (alldone && exiting) return;
            char buf[1500]; dump_state(buf, sizeof buf);
            if (forced_spins >= 3000) pmc_violation("livelock", "threads only spin without progress: %s", buf);
            mv_on_deadlock(buf);
            pmc_violation("deadlock", "on_deadlock handler returned: %s", buf);
        }
        if (time_dev) {
            // only deadlines in the near future are candidates: harnesses use second-long waits as stand-ins for "forever"
            uint64_t d = NEVER;
            for (int i = 0; i < NT; i++) { Th* t = &TH[i]; if ((t->wait == W_IDLE || t->wait == W_SLEEP || t->wait == W_COND) && t->deadline > vnow && t->deadline - vnow < TDEV_NEAR && t->deadline < d) d = t->deadline; }
            for (int i = 0; i < ndeadlines;) { if (deadlines[i] <= vnow) { deadlines[i] = deadlines[--ndeadlines]; continue; } if (deadlines[i] - vnow < TDEV_NEAR && deadlines[i] < d) d = deadlines[i]; i++; }
            if (d != NEVER && pmc_choose(2, PMC_TIME, 1, "time: next deadline passes now")) { set_now(d); time_devs++; continue; }
        }
        int idx = 0;
        if (n > 1) {
            char lb[96]; lb[0] = 0;
            if (pmc_verbose()) snprintf(lb, sizeof lb, "T%d(%s) %s %lx%s", me->id, me->name, what, (unsigned long)addr, me_enabled ? "" : " [blocked]");
            idx = pmc_choose(n, PMC_SCHED, me_enabled ? 1 : 0, lb);
        } else if (pmc_verbose() && n == 1) pmc_log("          (no choice) T%d(%s) %s %lx%s -> T%d", me->id, me->name, what, (unsigned long)addr, me_enabled ? "" : " [blocked]", list[0]->id);
        Th* next = list[idx];
        // history marker: this vCPU is preempted between releasing its run-queue lock and saving the outgoing thread's context (the window of
        // known finding F2): whatever ends this execution carries the marker in its signature
        if (next != me && me_enabled && me->switching_from && !strcmp(what, "prepare_switch")) pmc_tag("in-switch-window:");
        for (int i = 0; i < NT; i++) TH[i].spinning_forced = false;
        if (next == me) {
            if (n > 1) me->consec++;
            // a thread that keeps running for a long time is probably polling for time to pass (e.g. "while (running_tasks)
            // thread_yield()" with a task asleep on a timer): let the next known deadline pass (deterministic: count based)
            if (++me->alone > TIME_N || (n == 1 && me->periodic && me->alone > 200)) {      // (a few threads that each yield once or twice also look periodic for a moment: a real polling loop goes on)
                me->alone = 0; me->hn = 0; me->periodic = false;
                uint64_t d = NEVER;
                for (int i = 0; i < NT; i++) { Th* t = &TH[i]; if ((t->wait == W_IDLE || t->wait == W_SLEEP || t->wait == W_COND) && t->deadline > vnow && t->deadline - vnow < FAR && t->deadline < d) d = t->deadline; }
                for (int i = 0; i < ndeadlines; i++) if (deadlines[i] > vnow && deadlines[i] < d) d = deadlines[i];
                if (d != NEVER) { set_now(d); time_heur++; }
            }
            return;
        }
        me->alone = 0;
        // every runnable thread in turn was found polling: they are waiting for time to pass (e.g. two vCPUs that both loop
        // "while (cond) thread_yield()" while a task sleeps on a timer): let the next known deadline pass
        if (me_enabled && me->periodic && idx == 0) {
            if (++poll_rounds >= 2 * n) {
                poll_rounds = 0;
                uint64_t d = NEVER;
                for (int i = 0; i < NT; i++) { Th* t = &TH[i]; if ((t->wait == W_IDLE || t->wait == W_SLEEP || t->wait == W_COND) && t->deadline > vnow && t->deadline - vnow < FAR && t->deadline < d) d = t->deadline; }
                for (int i = 0; i < ndeadlines; i++) if (deadlines[i] > vnow && deadlines[i] < d) d = deadlines[i];
                if (d != NEVER) { set_now(d); time_heur++; }
            }
        } else poll_rounds = 0;
        me->consec = 0; next->consec = 0; me->hn = 0; me->periodic = false; next->hn = 0; next->periodic = false;
        give_baton(next);
        if (exiting) return;
        wait_baton(me);
        // we were chosen by somebody's decision, which saw us enabled
        return;
    }
}

void* os_stack_pool[MAXT]; int os_stack_n = 0;
void stack_release(void* s) { if (os_stack_n < MAXT) os_stack_pool[os_stack_n++] = s; }

Th* reg_thread(const char* name) {
    if (NT >= MAXT) pmc_broken("mv: too many threads");
    Th* t = &TH[NT]; memset(t, 0, sizeof *t); t->id = NT++; t->wait = W_NONE; snprintf(t->name, sizeof t->name, "%s", name);
    return t;
}

// a hooked operation on addr is about to happen
inline void point(Th* me, const char* what, uintptr_t pc, uintptr_t addr, int size, bool nonmut) {
    me->wait = W_NONE;
    if (nonmut) {
        uint64_t cur = readval(addr, size);
        for (int i = 0; i < me->nw; i++) if (me->w[i].pc == pc && me->w[i].addr == addr && me->w[i].val == cur && me->w[i].count >= 2) { me->wait = W_SPIN; break; }
    }
    me->cur_hash = (pc * 0x9E3779B97F4A7C15ull) ^ (addr * 0xC2B2AE3D27D4EB4Full) ^ (addr && size <= 8 ? readval(addr, size) * 0x165667B19E3779F9ull : 0) ^ 1;
    schedule(me, what, addr);
    me->wait = W_NONE;
}
inline void after(Th* me, uintptr_t pc, uintptr_t addr, int size, uint64_t observed, bool nonmut) {
    me->ops++;
    if (!nonmut) { me->nw = 0; return; }
    for (int i = 0; i < me->nw; i++) if (me->w[i].pc == pc && me->w[i].addr == addr) {
        if (me->w[i].val == observed) { if (me->w[i].count < 250) me->w[i].count++; me->w[i].seen = me->ops; }
        else { me->nw = 0; }      // it saw a change: progress
        goto done;
    }
    if (me->nw >= NWATCH) {     // evict the stalest entry
        int old = 0; for (int i = 1; i < me->nw; i++) if (me->w[i].seen < me->w[old].seen) old = i;
        me->w[old] = me->w[--me->nw];
    }
    { Watch& w = me->w[me->nw++]; w.pc = pc; w.addr = addr; w.val = observed; w.size = size; w.count = 1; w.seen = me->ops; }
done:
    if (me->nw == 0) { Watch& w = me->w[me->nw++]; w.pc = pc; w.addr = addr; w.val = observed; w.size = size; w.count = 1; w.seen = me->ops; }
}

void check_poison(uintptr_t a, int size, uintptr_t pc, const char* what) {
    for (int i = 0; i < NP; i++) if (a < PZ[i].hi && a + size > PZ[i].lo) {
        // name the function containing the access (binary is linked with -rdynamic) so that the signature identifies the call site
        char fn[160] = "?"; Dl_info di;
        if (dladdr((void*)pc, &di) && di.dli_sname) {
            int st = 0; char* dm = abi::__cxa_demangle(di.dli_sname, nullptr, nullptr, &st);
            snprintf(fn, sizeof fn, "%s", dm ? dm : di.dli_sname); free(dm);
            char* par = strchr(fn, '('); if (par) *par = 0;
        }
        char sig[220]; snprintf(sig, sizeof sig, "poisoned-access:%s", fn);
        pmc_violation(sig, "%s of %d bytes at %lx (pc %lx in %s) inside a region the harness marked dead [%lx,%lx) by T%d", what, size,
                      (unsigned long)a, (unsigned long)pc, fn, (unsigned long)PZ[i].lo, (unsigned long)PZ[i].hi, self ? self->id : -1);
    }
}

#define ON() (active && self)
#define PC() ((uintptr_t)__builtin_return_address(0))

}  // namespace

extern "C" {
void (*mv_on_deadlock)(const char*) = default_deadlock;

void mv_init(void) {
    NT = 0; NM = 0; NP = 0; NR = 0; vnow = MV_T0; npoints = 0; time_jumps = 0; time_devs = 0; time_heur = 0; forced_spins = 0; poll_rounds = 0; time_dev = false; ndeadlines = 0; tso_mode = false; switch_points = true;
    mv_on_deadlock = default_deadlock;
    if (&photon::now) photon::now = vnow;
    self = reg_thread("main");
    self->pth = pthread_self();
    active = true;
}
void mv_fini(void) {
    for (int i = 1; i < NT; i++) if (!TH[i].done) pmc_broken("mv_fini: thread T%d (%s) still alive", i, TH[i].name);
    active = false; self = nullptr;
}
// guarded source hook (thread/thread.cpp, -DPHOTON_VERIF): called right before a context switch saves `from`'s stack pointer and
// loads `to`'s. It is a scheduling point inside otherwise unhooked code, and it lets the runtime see a thread being resumed
// on one vCPU while another vCPU has not yet saved that thread's context (work stealing took it out of a run queue too early).
void photon_verif_switch(void* from, void* to) {
    if (!ON() || !switch_points) return;
    Th* me = self;
    for (int i = 0; i < NT; i++) if (i != me->id && TH[i].switching_from == to && to)
        pmc_violation("resumed-before-context-saved", "T%d (%s) switches to photon thread %p while T%d (%s) is still between releasing its run-queue lock and saving that thread's context",
                      me->id, me->name, to, i, TH[i].name);
    me->switching_from = from;
    me->wait = W_NONE; schedule(me, "prepare_switch", (uintptr_t)from);
    // the switch itself follows immediately and contains no scheduling point: the mark is cleared at this OS thread's next point
}
void mv_yield(const char* label) { if (!ON()) return; Th* me = self; me->wait = W_NONE; schedule(me, label ? label : "yield", 0); }
uint64_t mv_now(void) { return vnow; }
void mv_register_deadline(uint64_t abs_us) { if (ndeadlines < 32) deadlines[ndeadlines++] = abs_us; }
void mv_time_deviations(int on) { time_dev = on; }
// In TSO mode every plain write is observable (it commits the buffered store at a scheduling point). The one real-time dependent plain
// write in thread.cpp -- if_update_now() stores the TSC into a static whenever it changed -- is compiled out by the guarded hook
// (-DPHOTON_VERIF, DESIGN.md section 4): targets that use mv_tso(1) with photon vCPUs must build thread.cpp with it.
// (PR_SET_TSC was tried to trap and emulate RDTSC instead: the prctl succeeds in this VM but RDTSC does not trap.)
void mv_tso(int on) { tso_mode = on; }
void mv_switch_points(int on) { switch_points = on; }
void mv_plain_region(const void* p, size_t n) { if (NR < 8) { RG[NR].lo = (uintptr_t)p; RG[NR].hi = (uintptr_t)p + n; NR = NR + 1; } }
int mv_self(void) { return self ? self->id : -1; }
int mv_nthreads(void) { return NT; }
void mv_set_name(const char* name) { if (self) snprintf(self->name, sizeof self->name, "%s", name); }
uint64_t mv_time_jumps(void) { return time_jumps; }
uint64_t mv_time_devs(void) { return time_devs; }
uint64_t mv_time_heur(void) { return time_heur; }
uint64_t mv_sched_points(void) { return npoints; }
void mv_poison(const void* p, size_t n) { if (NP >= MAXPOISON) return; PZ[NP].lo = (uintptr_t)p; PZ[NP].hi = (uintptr_t)p + n; NP = NP + 1; }
void mv_unpoison(const void* p, size_t n) {
    uintptr_t lo = (uintptr_t)p, hi = lo + n;
    for (int i = 0; i < NP;) { if (PZ[i].lo < hi && PZ[i].hi > lo) { PZ[i] = PZ[NP - 1]; NP = NP - 1; } else i++; }
}

void mv_idle_wait(mv_idle_cell* cell, uint64_t timeout_us) {
    if (!ON()) { return; }
    Th* me = self;
    if (cell->cancelled) { cell->cancelled = 0; me->wait = W_NONE; schedule(me, "idle(cancelled)", (uintptr_t)cell); return; }
    me->cell = cell; me->deadline = vnow + timeout_us; me->wait = W_IDLE; cell->waiting = 1; cell->owner = me->id;
    schedule(me, "idle", (uintptr_t)cell);
    me->wait = W_NONE; cell->waiting = 0; cell->cancelled = 0;
}
void mv_idle_cancel(mv_idle_cell* cell) {
    if (!ON()) { cell->cancelled = 1; return; }
    Th* me = self; me->wait = W_NONE;
    schedule(me, "cancel_wait", (uintptr_t)cell);
    cell->cancelled = 1;
}

// ------------------------------------------------------------------ TSan ABI: atomics
#define DEF_ATOMIC(N, T)                                                                                              \
    T __tsan_atomic##N##_load(const volatile T* a, int) {                                                             \
        if (!ON()) return __atomic_load_n(a, __ATOMIC_SEQ_CST);                                                       \
        Th* me = self; uintptr_t pc = PC(); if (NP) check_poison((uintptr_t)a, sizeof(T), pc, "atomic load");         \
        point(me, "load", pc, (uintptr_t)a, sizeof(T), true);                                                         \
        if (me->sb.on && me->sb.addr <= (uintptr_t)a + sizeof(T) - 1 && (uintptr_t)a <= me->sb.addr + me->sb.size - 1) { \
            if (me->sb.addr == (uintptr_t)a && me->sb.size == sizeof(T)) { T fv = (T)me->sb.val; after(me, pc, (uintptr_t)a, sizeof(T), (uint64_t)fv, true); return fv; } \
            sb_drain(me); }                                                                                           \
        T v = __atomic_load_n(a, __ATOMIC_SEQ_CST); after(me, pc, (uintptr_t)a, sizeof(T), (uint64_t)v, true); return v; }                \
    void __tsan_atomic##N##_store(volatile T* a, T v, int mo) {                                                       \
        if (!ON()) { __atomic_store_n(a, v, __ATOMIC_SEQ_CST); return; }                                              \
        Th* me = self; uintptr_t pc = PC(); if (NP) check_poison((uintptr_t)a, sizeof(T), pc, "atomic store");        \
        point(me, "store", pc, (uintptr_t)a, sizeof(T), false);                                                       \
        sb_drain(me);                                                                                                 \
        if (tso_mode && mo != __ATOMIC_SEQ_CST && pmc_choose(2, PMC_ENV, 1, "TSO: the store stays in the store buffer")) { \
            me->sb.addr = (uintptr_t)a; me->sb.val = (uint64_t)v; me->sb.size = sizeof(T); me->sb.on = true; me->sb.age = 0; \
            after(me, pc, (uintptr_t)a, sizeof(T), 0, false); return; }                                               \
        __atomic_store_n(a, v, __ATOMIC_SEQ_CST); after(me, pc, (uintptr_t)a, sizeof(T), 0, false); }                 \
    T __tsan_atomic##N##_exchange(volatile T* a, T v, int) {                                                          \
        if (!ON()) return __atomic_exchange_n(a, v, __ATOMIC_SEQ_CST);                                                \
        Th* me = self; uintptr_t pc = PC(); if (NP) check_poison((uintptr_t)a, sizeof(T), pc, "atomic exchange");     \
        bool nm = (*(volatile T*)a == v);                                                                             \
        point(me, "xchg", pc, (uintptr_t)a, sizeof(T), nm); sb_drain(me);                                                           \
        nm = (*(volatile T*)a == v);                                                                                  \
        T o = __atomic_exchange_n(a, v, __ATOMIC_SEQ_CST); after(me, pc, (uintptr_t)a, sizeof(T), (uint64_t)o, nm); return o; }           \
    int __tsan_atomic##N##_compare_exchange_strong(volatile T* a, T* e, T d, int, int) {                              \
        if (!ON()) return __atomic_compare_exchange_n(a, e, d, 0, __ATOMIC_SEQ_CST, __ATOMIC_SEQ_CST);                \
        Th* me = self; uintptr_t pc = PC(); if (NP) check_poison((uintptr_t)a, sizeof(T), pc, "atomic cas");          \
        bool nm = (*(volatile T*)a != *e);                                                                            \
        point(me, "cas", pc, (uintptr_t)a, sizeof(T), nm); sb_drain(me);                                                            \
        T cur = *(volatile T*)a; nm = (cur != *e);                                                                    \
        int r = __atomic_compare_exchange_n(a, e, d, 0, __ATOMIC_SEQ_CST, __ATOMIC_SEQ_CST);                          \
        after(me, pc, (uintptr_t)a, sizeof(T), (uint64_t)cur, nm); return r; }                                        \
    int __tsan_atomic##N##_compare_exchange_weak(volatile T* a, T* e, T d, int mo, int fmo) {                         \
        if (!ON()) return __atomic_compare_exchange_n(a, e, d, 0, __ATOMIC_SEQ_CST, __ATOMIC_SEQ_CST);                \
        Th* me = self; uintptr_t pc = PC(); if (NP) check_poison((uintptr_t)a, sizeof(T), pc, "atomic cas");          \
        bool nm = (*(volatile T*)a != *e);                                                                            \
        point(me, "casw", pc, (uintptr_t)a, sizeof(T), nm); sb_drain(me);                                                           \
        T cur = *(volatile T*)a; nm = (cur != *e);                                                                    \
        int r = __atomic_compare_exchange_n(a, e, d, 0, __ATOMIC_SEQ_CST, __ATOMIC_SEQ_CST);                          \
        after(me, pc, (uintptr_t)a, sizeof(T), (uint64_t)cur, nm); return r; }                                        \
    T __tsan_atomic##N##_compare_exchange_val(volatile T* a, T e, T d, int, int) {                                    \
        if (!ON()) { __atomic_compare_exchange_n(a, &e, d, 0, __ATOMIC_SEQ_CST, __ATOMIC_SEQ_CST); return e; }        \
        Th* me = self; uintptr_t pc = PC();                                                                           \
        bool nm = (*(volatile T*)a != e);                                                                             \
        point(me, "casv", pc, (uintptr_t)a, sizeof(T), nm); sb_drain(me);                                                           \
        T cur = *(volatile T*)a; nm = (cur != e);                                                                     \
        __atomic_compare_exchange_n(a, &e, d, 0, __ATOMIC_SEQ_CST, __ATOMIC_SEQ_CST);                                 \
        after(me, pc, (uintptr_t)a, sizeof(T), (uint64_t)cur, nm); return e; }

#define DEF_FETCH(N, T, NAME, BUILTIN, NOCHANGE)                                                                      \
    T __tsan_atomic##N##_fetch_##NAME(volatile T* a, T v, int) {                                                      \
        if (!ON()) return BUILTIN(a, v, __ATOMIC_SEQ_CST);                                                            \
        Th* me = self; uintptr_t pc = PC(); if (NP) check_poison((uintptr_t)a, sizeof(T), pc, "atomic rmw");          \
        bool nm; { T cur = *(volatile T*)a; (void)cur; nm = (NOCHANGE); }                                             \
        point(me, "fetch_" #NAME, pc, (uintptr_t)a, sizeof(T), nm); sb_drain(me);                                                   \
        { T cur = *(volatile T*)a; (void)cur; nm = (NOCHANGE); }                                                      \
        T o = BUILTIN(a, v, __ATOMIC_SEQ_CST); after(me, pc, (uintptr_t)a, sizeof(T), (uint64_t)o, nm); return o; }

#define DEF_ALL(N, T)                                             \
    DEF_ATOMIC(N, T)                                              \
    DEF_FETCH(N, T, add, __atomic_fetch_add, v == 0)              \
    DEF_FETCH(N, T, sub, __atomic_fetch_sub, v == 0)              \
    DEF_FETCH(N, T, and, __atomic_fetch_and, (T)(cur & v) == cur) \
    DEF_FETCH(N, T, or, __atomic_fetch_or, (T)(cur | v) == cur)   \
    DEF_FETCH(N, T, xor, __atomic_fetch_xor, v == 0)              \
    DEF_FETCH(N, T, nand, __atomic_fetch_nand, false)

DEF_ALL(8, uint8_t)
DEF_ALL(16, uint16_t)
DEF_ALL(32, uint32_t)
DEF_ALL(64, uint64_t)

void __tsan_atomic_thread_fence(int) { if (!ON()) return; Th* me = self; me->wait = W_NONE; schedule(me, "fence", 0); sb_drain(me); }
void __tsan_atomic_signal_fence(int) {}
void __tsan_init(void) {}

// ------------------------------------------------------------------ TSan ABI: volatile accesses = scheduling points
#define DEF_VOL(N)                                                                                                     \
    void __tsan_volatile_read##N(void* a) {                                                                            \
        if (!ON() || a == (void*)&photon::now) return;                                                                 \
        Th* me = self; uintptr_t pc = PC(); if (NP) check_poison((uintptr_t)a, N, pc, "volatile read");                \
        int sz = N > 8 ? 8 : N;                                                                                        \
        point(me, "vread", pc, (uintptr_t)a, sz, true);                                                                \
        after(me, pc, (uintptr_t)a, sz, readval((uintptr_t)a, sz), true); }                                            \
    void __tsan_volatile_write##N(void* a) {                                                                           \
        if (!ON() || a == (void*)&photon::now) return;                                                                 \
        Th* me = self; uintptr_t pc = PC(); if (NP) check_poison((uintptr_t)a, N, pc, "volatile write");               \
        point(me, "vwrite", pc, (uintptr_t)a, N > 8 ? 8 : N, false); sb_drain(me); after(me, pc, (uintptr_t)a, 8, 0, false); }       \
    void __tsan_unaligned_volatile_read##N(void* a) { __tsan_volatile_read##N(a); }                                    \
    void __tsan_unaligned_volatile_write##N(void* a) { __tsan_volatile_write##N(a); }
DEF_VOL(1) DEF_VOL(2) DEF_VOL(4) DEF_VOL(8) DEF_VOL(16)

// ------------------------------------------------------------------ TSan ABI: plain accesses feed the poison map only
static void sb_commit_point(Th* me, uintptr_t pc = 0) {
    if (pmc_verbose() && pc) { Dl_info di; const char* nm = (dladdr((void*)pc, &di) && di.dli_sname) ? di.dli_sname : "?"; pmc_log("  (plain access at pc %lx in %s commits the buffered store)", (unsigned long)pc, nm); }
    me->wait = W_NONE; schedule(me, "store-buffer commit", me->sb.addr); sb_drain(me); }
#define SB_W() do { if (tso_mode && active && self && self->sb.on) sb_commit_point(self, PC()); } while (0)
#define SB_R(a, n) do { if (tso_mode && active && self && self->sb.on && self->sb.addr <= (uintptr_t)(a) + (n) - 1 && (uintptr_t)(a) <= self->sb.addr + self->sb.size - 1) sb_commit_point(self, PC()); } while (0)
// plain accesses inside a registered region (a lock-free structure's own memory) are scheduling points as well: a preemption can land
// between the publication of an index / mark and the plain store or load it is supposed to guard
static inline void plain_point(void* a, int n, const char* what) {
    if (!NR || !active || !self) return;
    uintptr_t x = (uintptr_t)a;
    for (int i = 0; i < NR; i++) if (x < RG[i].hi && x + n > RG[i].lo) { Th* me = self; me->wait = W_NONE; schedule(me, what, x); return; }
}
#define DEF_PLAIN(N)                                                                                                   \
    void __tsan_read##N(void* a) { SB_R(a, N); if (NP && active) check_poison((uintptr_t)a, N, PC(), "read"); plain_point(a, N, "plain read"); }        \
    void __tsan_write##N(void* a) { SB_W(); if (NP && active) check_poison((uintptr_t)a, N, PC(), "write"); plain_point(a, N, "plain write"); }          \
    void __tsan_unaligned_read##N(void* a) { if (NP && active) check_poison((uintptr_t)a, N, PC(), "read"); plain_point(a, N, "plain read"); }          \
    void __tsan_unaligned_write##N(void* a) { SB_W(); if (NP && active) check_poison((uintptr_t)a, N, PC(), "write"); plain_point(a, N, "plain write"); } \
    void __tsan_read_write##N(void* a) { SB_W(); if (NP && active) check_poison((uintptr_t)a, N, PC(), "read-write"); } \
    void __tsan_unaligned_read_write##N(void* a) { if (NP && active) check_poison((uintptr_t)a, N, PC(), "read-write"); }
DEF_PLAIN(1) DEF_PLAIN(2) DEF_PLAIN(4) DEF_PLAIN(8) DEF_PLAIN(16)
void __tsan_read_range(void* a, unsigned long n) { if (NP && active) check_poison((uintptr_t)a, n > INT_MAX ? INT_MAX : (int)n, PC(), "read"); }
void __tsan_write_range(void* a, unsigned long n) { SB_W(); if (NP && active) check_poison((uintptr_t)a, n > INT_MAX ? INT_MAX : (int)n, PC(), "write"); }
// memcpy / memmove / memset of instrumented code (-tsan-instrument-memintrinsics=1): same treatment as a plain read / write of the range
static inline void mem_hook(const void* a, unsigned long n, uintptr_t pc, bool write) {
    if (!active || !self || !n) return;
    if (write) SB_W(); else SB_R(a, n);
    if (NP) check_poison((uintptr_t)a, n > INT_MAX ? INT_MAX : (int)n, pc, write ? "write" : "read");
    plain_point((void*)a, n > INT_MAX ? INT_MAX : (int)n, write ? "plain write" : "plain read");
}
void* __tsan_memcpy(void* d, const void* s, unsigned long n) { mem_hook(s, n, PC(), false); mem_hook(d, n, PC(), true); return memcpy(d, s, n); }
void* __tsan_memmove(void* d, const void* s, unsigned long n) { mem_hook(s, n, PC(), false); mem_hook(d, n, PC(), true); return memmove(d, s, n); }
void* __tsan_memset(void* d, int c, unsigned long n) { mem_hook(d, n, PC(), true); return memset(d, c, n); }
void __tsan_vptr_update(void**, void*) {}
void __tsan_vptr_read(void**) {}
void __tsan_func_entry(void*) {}
void __tsan_func_exit(void) {}
void __tsan_ignore_thread_begin(void) {}
void __tsan_ignore_thread_end(void) {}

// ------------------------------------------------------------------ libc seams
typedef int (*create_fn)(pthread_t*, const pthread_attr_t*, void* (*)(void*), void*);
typedef int (*join_fn)(pthread_t, void**);

static void* trampoline(void* p) {
    Th* t = (Th*)p; self = t;
    wait_baton(t);
    void* r = t->start(t->arg);
    t->ret = r; t->done = true; t->wait = W_DONE;
    schedule(t, "exit", 0, true);
    return r;
}

int pthread_create(pthread_t* pt, const pthread_attr_t* attr, void* (*start)(void*), void* arg) {
    static create_fn real = (create_fn)dlsym(RTLD_NEXT, "pthread_create");
    if (!ON()) return real(pt, attr, start, arg);
    Th* me = self;
    Th* t = reg_thread("thread");
    t->start = start; t->arg = arg;
    // OS thread stacks from our own pool: glibc would madvise/munmap its cached stacks (page faults are very slow here)
    pthread_attr_t a; pthread_attr_init(&a);
    const size_t SS = 1 << 20;
    void* stk = nullptr;
    if (!attr) {
        if (os_stack_n > 0) stk = os_stack_pool[--os_stack_n];
        else { stk = mmap(nullptr, SS, PROT_READ | PROT_WRITE, MAP_PRIVATE | MAP_ANONYMOUS, -1, 0); if (stk == MAP_FAILED) stk = nullptr; }
        if (stk) pthread_attr_setstack(&a, stk, SS);
    }
    t->stack = stk;
    int r = real(pt, (stk && !attr) ? &a : attr, trampoline, t);
    pthread_attr_destroy(&a);
    if (r) pmc_broken("pthread_create failed %d", r);

    t->pth = *pt;
    me->wait = W_NONE; schedule(me, "pthread_create", 0);
    return 0;
}

int pthread_join(pthread_t pt, void** ret) {
    static join_fn real = (join_fn)dlsym(RTLD_NEXT, "pthread_join");
    if (!ON()) return real(pt, ret);
    Th* me = self; int target = -1;
    for (int i = 0; i < NT; i++) if (i != me->id && pthread_equal(TH[i].pth, pt)) target = i;
    if (target < 0) return real(pt, ret);
    me->join_target = target; me->wait = W_JOIN;
    schedule(me, "pthread_join", 0);
    me->wait = W_NONE;
    int r = real(pt, ret);
    if (TH[target].stack) { stack_release(TH[target].stack); TH[target].stack = nullptr; }
    return r;
}

int sched_yield(void) {
    if (!ON()) return (int)syscall(SYS_sched_yield);
    Th* me = self; me->wait = W_NONE; me->yielding = true;
    schedule(me, "sched_yield", 0);
    me->yielding = false;
    return 0;
}

static void model_sleep(uint64_t us) {
    Th* me = self; me->deadline = vnow + us; me->wait = us ? W_SLEEP : W_NONE;
    schedule(me, "sleep", 0); me->wait = W_NONE;
}
int usleep(useconds_t us) {
    if (!ON()) { timespec ts = { (time_t)(us / 1000000), (long)(us % 1000000) * 1000 }; return (int)syscall(SYS_nanosleep, &ts, nullptr); }
    model_sleep(us); return 0;
}
int nanosleep(const timespec* req, timespec* rem) {
    if (!ON()) return (int)syscall(SYS_nanosleep, req, rem);
    model_sleep((uint64_t)req->tv_sec * 1000000 + req->tv_nsec / 1000); return 0;
}
int clock_gettime(clockid_t c, timespec* ts) {
    if (!active) return (int)syscall(SYS_clock_gettime, c, ts);
    ts->tv_sec = vnow / 1000000; ts->tv_nsec = (vnow % 1000000) * 1000; return 0;
}
int gettimeofday(timeval* tv, void* tz) {
    if (!active) return (int)syscall(SYS_gettimeofday, tv, tz);
    if (tv) { tv->tv_sec = vnow / 1000000; tv->tv_usec = vnow % 1000000; } return 0;
}

// pthread mutex / condvar model (std::mutex, std::condition_variable of libstdc++ resolve here)
int pthread_mutex_lock(pthread_mutex_t* m) {
    typedef int (*fn)(pthread_mutex_t*); static fn real = (fn)dlsym(RTLD_NEXT, "pthread_mutex_lock");
    if (!ON()) return real(m);
    Th* me = self;
    Mtx* x = find_mtx(m, true);
    if (x->owner == me->id) { x->depth++; return 0; }
    me->obj = m; me->wait = x->owner < 0 ? W_NONE : W_MUTEX;
    schedule(me, "mutex_lock", (uintptr_t)m);
    for (;;) {
        x = find_mtx(m, true);
        if (x->owner < 0) break;
        me->wait = W_MUTEX; schedule(me, "mutex_lock(retry)", (uintptr_t)m);
    }
    me->wait = W_NONE; x->owner = me->id; x->depth = 1;
    return 0;
}
int pthread_mutex_trylock(pthread_mutex_t* m) {
    typedef int (*fn)(pthread_mutex_t*); static fn real = (fn)dlsym(RTLD_NEXT, "pthread_mutex_trylock");
    if (!ON()) return real(m);
    Th* me = self; me->wait = W_NONE; schedule(me, "mutex_trylock", (uintptr_t)m);
    Mtx* x = find_mtx(m, true);
    if (x->owner >= 0 && x->owner != me->id) return EBUSY;
    if (x->owner == me->id) { x->depth++; return 0; }
    x->owner = me->id; x->depth = 1; return 0;
}
int pthread_mutex_unlock(pthread_mutex_t* m) {
    typedef int (*fn)(pthread_mutex_t*); static fn real = (fn)dlsym(RTLD_NEXT, "pthread_mutex_unlock");
    if (!ON()) return real(m);
    Th* me = self; Mtx* x = find_mtx(m, false);
    if (!x || x->owner != me->id) return real(m);     // locked before the runtime was active
    if (--x->depth > 0) return 0;
    x->owner = -1;
    me->wait = W_NONE; schedule(me, "mutex_unlock", (uintptr_t)m);
    return 0;
}
static int cond_wait_model(pthread_cond_t* c, pthread_mutex_t* m, uint64_t deadline) {
    Th* me = self; Mtx* x = find_mtx(m, true);
    int depth = x->depth; x->owner = -1; x->depth = 0;
    me->obj = c; me->signaled = false; me->deadline = deadline; me->wait = W_COND;
    schedule(me, "cond_wait", (uintptr_t)c);
    bool sig = me->signaled; me->signaled = false;
    // reacquire
    for (;;) {
        x = find_mtx(m, true);
        if (x->owner < 0) break;
        me->obj = m; me->wait = W_MUTEX; schedule(me, "cond_relock", (uintptr_t)m);
    }
    me->wait = W_NONE; x->owner = me->id; x->depth = depth;
    return sig ? 0 : ETIMEDOUT;
}
int pthread_cond_wait(pthread_cond_t* c, pthread_mutex_t* m) {
    typedef int (*fn)(pthread_cond_t*, pthread_mutex_t*); static fn real = (fn)dlsym(RTLD_NEXT, "pthread_cond_wait");
    if (!ON()) return real(c, m);
    cond_wait_model(c, m, NEVER); return 0;
}
static uint64_t abs_to_us(const timespec* ts) { return (uint64_t)ts->tv_sec * 1000000 + ts->tv_nsec / 1000; }
int pthread_cond_timedwait(pthread_cond_t* c, pthread_mutex_t* m, const timespec* abs) {
    typedef int (*fn)(pthread_cond_t*, pthread_mutex_t*, const timespec*); static fn real = (fn)dlsym(RTLD_NEXT, "pthread_cond_timedwait");
    if (!ON()) return real(c, m, abs);
    return cond_wait_model(c, m, abs_to_us(abs));
}
int pthread_cond_clockwait(pthread_cond_t* c, pthread_mutex_t* m, clockid_t clk, const timespec* abs) {
    typedef int (*fn)(pthread_cond_t*, pthread_mutex_t*, clockid_t, const timespec*); static fn real = (fn)dlsym(RTLD_NEXT, "pthread_cond_clockwait");
    if (!ON()) return real(c, m, clk, abs);
    return cond_wait_model(c, m, abs_to_us(abs));
}
int pthread_cond_signal(pthread_cond_t* c) {
    typedef int (*fn)(pthread_cond_t*); static fn real = (fn)dlsym(RTLD_NEXT, "pthread_cond_signal");
    if (!ON()) return real(c);
    Th* me = self; me->wait = W_NONE; schedule(me, "cond_signal", (uintptr_t)c);
    for (int i = 0; i < NT; i++) if (TH[i].wait == W_COND && TH[i].obj == c && !TH[i].signaled) { TH[i].signaled = true; break; }
    return 0;
}
int pthread_cond_broadcast(pthread_cond_t* c) {
    typedef int (*fn)(pthread_cond_t*); static fn real = (fn)dlsym(RTLD_NEXT, "pthread_cond_broadcast");
    if (!ON()) return real(c);
    Th* me = self; me->wait = W_NONE; schedule(me, "cond_broadcast", (uintptr_t)c);
    for (int i = 0; i < NT; i++) if (TH[i].wait == W_COND && TH[i].obj == c) TH[i].signaled = true;
    return 0;
}
}  // extern "C"
