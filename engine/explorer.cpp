// explorer.cpp -- stateless, deviation-bounded, exhaustive explorer (DESIGN.md 2.1).
// Linked into every sv/mv harness binary. Compiled WITHOUT any sanitizer/instrumentation.
#include "pmc.h"
#include <stdio.h>
#include <stdlib.h>
#include <string.h>
#include <stdarg.h>
#include <unistd.h>
#include <errno.h>
#include <signal.h>
#include <fcntl.h>
#include <time.h>
#include <pthread.h>
#include <sys/mman.h>
#include <sys/wait.h>
#include <sys/stat.h>
#include <sys/personality.h>
#include <sys/prctl.h>
#include <sys/syscall.h>
#include <poll.h>
#include <sched.h>
#include <string>
#include <vector>
#include <algorithm>

namespace {

struct Pt { uint16_t n; uint16_t chosen; uint8_t kind; uint8_t cost; uint16_t pad; };

enum { ST_RUNNING = 0, ST_OK = 1, ST_VIOLATION = 2, ST_BROKEN = 3, ST_NONDET = 4 };
enum { OBSMAX = 1 << 16, DETMAX = 4096, SIGMAX = 256 };

struct Trace {                       // lives in MAP_SHARED memory; written by the child
    volatile uint32_t status;
    volatile uint32_t npts;          // recorded (in-window) points
    volatile uint32_t obslen;
    uint32_t prefix_len;             // set by the worker before fork
    uint32_t verbose;
    uint32_t maxpts;
    char sig[SIGMAX];
    char tag[32];                    // history marker set by the runtime (pmc_tag): prefixed to the signature of whatever ends this execution
    char detail[DETMAX];
    char obs[OBSMAX];
    Pt pts[1];                       // maxpts entries (prefix in [0,prefix_len), then recorded)
};

struct Item { std::vector<Pt> prefix; uint8_t c[3]; };

enum { QN = 4096, MAXVIO = 48, HN = 1 << 21 };

struct QSlot { uint32_t len; uint8_t c[3]; uint8_t pad; };

struct Shared {
    pthread_mutex_t mu;
    int active;
    int qcount;
    int next_frontier;
    volatile int stop;        // deadline hit
    int broken;
    char broken_msg[1024];
    uint64_t executions, points_total, tree_nodes, frontier_items;
    uint64_t distinct_obs;
    uint64_t max_pts_seen;
    int nvio;
    struct Vio { uint64_t h; char sig[SIGMAX]; char detail[DETMAX]; char replay[512]; uint64_t count; } vio[MAXVIO];
    uint64_t vio_total;
    uint64_t retries_fresh, selfchecks;
    uint64_t htab[HN];
    // queue storage follows: QN * (QSlot + maxprefix*Pt)
};

int g_argc; char** g_argv;
Trace* T = nullptr;            // trace of the current child (child side) / worker's slot
bool in_child = false;
int window_on = 0;
uint32_t g_maxpts = 20000;
int g_exec_timeout = 12;
std::string g_builddir = "/verif/build/tmp";
std::string g_replaydir = "/verif/replays";
Shared* S = nullptr;
char* Q = nullptr;             // queue storage
size_t qslot_bytes = 0;
uint32_t g_maxprefix = 4096;

// raw syscall: harness flavors interpose clock_gettime with a virtual clock
double now_s() { timespec ts; syscall(SYS_clock_gettime, CLOCK_MONOTONIC, &ts); return ts.tv_sec + ts.tv_nsec * 1e-9; }

uint64_t fnv(const void* p, size_t n, uint64_t h = 1469598103934665603ull) {
    auto b = (const unsigned char*)p;
    for (size_t i = 0; i < n; i++) { h ^= b[i]; h *= 1099511628211ull; }
    return h;
}

std::string jesc(const char* s) {
    std::string o;
    for (; *s; s++) {
        unsigned char c = *s;
        if (c == '"' || c == '\\') { o += '\\'; o += c; }
        else if (c == '\n') o += "\\n";
        else if (c == '\t') o += "\\t";
        else if (c < 0x20 || c >= 0x7f) { char b[8]; snprintf(b, sizeof b, "\\u%04x", c); o += b; }
        else o += c;
    }
    return o;
}

void child_exit(int code) { fflush(stdout); fflush(stderr); _exit(code); }

}  // namespace

// ---------------------------------------------------------------- child-side API
extern "C" {

int pmc_verbose(void) { return T ? T->verbose : 0; }

int pmc_choose(int n, int kind, int cost, const char* label) {
    if (n <= 1) return 0;
    if (!in_child || !window_on) return 0;
    uint32_t i = T->npts;
    if (i >= T->maxpts) {
        pmc_violation("horizon", "more than %u choice points in one execution (livelock?) last label=%s", T->maxpts, label ? label : "");
    }
    int ans = 0;
    if (i < T->prefix_len) {
        Pt& p = T->pts[i];
        if (p.n != n || p.kind != kind) {
            T->status = ST_NONDET;
            snprintf(T->detail, DETMAX, "replay diverged at point %u: recorded n=%u kind=%u, now n=%d kind=%d label=%s",
                     i, p.n, p.kind, n, kind, label ? label : "");
            if (T->verbose) fprintf(stderr, "NONDETERMINISM: %s\n", T->detail);
            child_exit(4);
        }
        ans = p.chosen;
        if (ans >= n) { T->status = ST_NONDET; snprintf(T->detail, DETMAX, "choice out of range at %u", i); child_exit(4); }
        p.cost = (uint8_t)cost;
    } else {
        Pt& p = T->pts[i];
        p.n = (uint16_t)n; p.chosen = 0; p.kind = (uint8_t)kind; p.cost = (uint8_t)cost; p.pad = 0;
    }
    T->npts = i + 1;
    if (T->verbose) fprintf(stderr, "[choice %u] kind=%d n=%d cost=%d -> %d  %s\n", i, kind, n, cost, ans, label ? label : "");
    return ans;
}

void pmc_obs(const char* fmt, ...) {
    if (!in_child) return;
    char buf[1024];
    va_list ap; va_start(ap, fmt); int k = vsnprintf(buf, sizeof buf, fmt, ap); va_end(ap);
    if (k < 0) return;
    if (k >= (int)sizeof buf) k = sizeof buf - 1;
    uint32_t l = T->obslen;
    if (l + k + 1 >= OBSMAX) return;
    memcpy(T->obs + l, buf, k); T->obs[l + k] = 0; T->obslen = l + k;
    if (T->verbose) fprintf(stderr, "[obs] %s\n", buf);
}

void pmc_log(const char* fmt, ...) {
    if (!in_child || !T->verbose) return;
    va_list ap; va_start(ap, fmt); vfprintf(stderr, fmt, ap); va_end(ap); fputc('\n', stderr);
}

void pmc_tag(const char* tag) { if (in_child && T) snprintf(T->tag, sizeof T->tag, "%s", tag ? tag : ""); }

void pmc_violation(const char* sig, const char* fmt, ...) {
    if (!in_child) { fprintf(stderr, "pmc_violation outside child: %s\n", sig); abort(); }
    if (T->status == ST_RUNNING) {
        snprintf(T->sig, SIGMAX, "%s%s", T->tag, sig);
        va_list ap; va_start(ap, fmt); vsnprintf(T->detail, DETMAX, fmt, ap); va_end(ap);
        T->status = ST_VIOLATION;
        if (T->verbose) fprintf(stderr, "VIOLATION-IN-EXECUTION sig=%s detail=%s\n", T->sig, T->detail);
    }
    child_exit(3);
}

void pmc_broken(const char* fmt, ...) {
    if (!in_child) { va_list ap; va_start(ap, fmt); vfprintf(stderr, fmt, ap); va_end(ap); abort(); }
    va_list ap; va_start(ap, fmt); vsnprintf(T->detail, DETMAX, fmt, ap); va_end(ap);
    T->status = ST_BROKEN;
    if (T->verbose) fprintf(stderr, "BROKEN: %s\n", T->detail);
    child_exit(5);
}

void pmc_done(void) {
    if (in_child) { if (T->status == ST_RUNNING) T->status = ST_OK; child_exit(0); }
    exit(0);
}

void pmc_window(int on) { window_on = on; }
int pmc_npoints(void) { return T ? (int)T->npts : 0; }
void pmc_state_hash(uint64_t) {}

}  // extern "C"

// ---------------------------------------------------------------- worker side
namespace {

size_t trace_bytes() { return sizeof(Trace) + sizeof(Pt) * (size_t)g_maxpts; }

Trace* alloc_trace() {
    void* p = mmap(nullptr, trace_bytes(), PROT_READ | PROT_WRITE, MAP_SHARED | MAP_ANONYMOUS, -1, 0);
    if (p == MAP_FAILED) { perror("mmap"); exit(2); }
    return (Trace*)p;
}

struct Outcome { int status; std::string sig, detail; int exitcode, signo; };

std::string read_file_tail(const std::string& path, size_t maxb = 12000) {
    FILE* f = fopen(path.c_str(), "r"); if (!f) return "";
    std::string s; char buf[4096]; size_t k;
    while ((k = fread(buf, 1, sizeof buf, f)) > 0) { s.append(buf, k); if (s.size() > 4 * maxb) s.erase(0, s.size() - maxb); }
    fclose(f);
    if (s.size() > maxb) s.erase(0, s.size() - maxb);
    return s;
}
std::string read_file_head(const std::string& path, size_t maxb = 12000) {
    FILE* f = fopen(path.c_str(), "r"); if (!f) return "";
    std::string s(maxb, 0); size_t k = fread(&s[0], 1, maxb, f); s.resize(k); fclose(f); return s;
}

// classify a child that died without reporting through the API
void classify_crash(Outcome& o, const std::string& log) {
    size_t p;
    if ((p = log.find("ERROR: AddressSanitizer: ")) != std::string::npos) {
        size_t q = p + strlen("ERROR: AddressSanitizer: ");
        size_t e = log.find_first_of(" \n", q);
        o.sig = "asan:" + log.substr(q, e - q);
    } else if ((p = log.find("runtime error: ")) != std::string::npos) {
        size_t q = p + strlen("runtime error: ");
        size_t e = log.find('\n', q);
        std::string m = log.substr(q, std::min(e, q + 80) - q);
        for (auto& ch : m) if (ch >= '0' && ch <= '9') ch = '#';
        o.sig = "ubsan:" + m;
    } else if ((p = log.find("Assertion `")) != std::string::npos) {
        size_t q = p + strlen("Assertion `");
        size_t e = log.find("' failed", q);
        o.sig = "assert:" + log.substr(q, std::min(e, q + 120) - q);
    } else if (o.signo) {
        o.sig = std::string("crash:") + (o.signo == SIGSEGV ? "SIGSEGV" : o.signo == SIGABRT ? "SIGABRT" : o.signo == SIGALRM ? "timeout" :
                 o.signo == SIGBUS ? "SIGBUS" : o.signo == SIGFPE ? "SIGFPE" : o.signo == SIGILL ? "SIGILL" : o.signo == SIGKILL ? "SIGKILL" : "signal");
        if (o.signo == SIGALRM) o.sig = "timeout";
    } else {
        char b[64]; snprintf(b, sizeof b, "crash:exit%d", o.exitcode); o.sig = b;
    }
    o.status = ST_VIOLATION;
    o.detail = log.size() > 3000 ? log.substr(0, 3000) : log;
}

std::string g_config;
std::string g_logpath;

// ---- runner process: executes pmc_run() for one job after another in the same process (fork is
// globally serialised on this kind of VM: ~1 ms each and no scaling across cores). A runner is reused
// as long as pmc_run() *returns* (the harness cleaned up completely); pmc_done()/violation/crash end it.
struct Runner { pid_t pid = 0; int cmd_w = -1, done_r = -1; int jobs = 0; };
Runner g_runner;
bool g_reuse = true;
int g_recycle = 4000;
int g_selfcheck = 1009;           // jobs per runner (bounds leak growth under ASan)

void kill_runner() {
    if (!g_runner.pid) return;
    kill(g_runner.pid, SIGKILL);
    int st; while (waitpid(g_runner.pid, &st, 0) < 0 && errno == EINTR) {}
    close(g_runner.cmd_w); close(g_runner.done_r);
    g_runner = Runner();
}

void runner_main(Trace* t, int cmd_r, int done_w, bool passthrough) {
    prctl(PR_SET_PDEATHSIG, SIGKILL);
    in_child = true; T = t;
    int logfd = -1;
    if (!passthrough) {
        logfd = open(g_logpath.c_str(), O_RDWR | O_CREAT | O_TRUNC, 0644);
        if (logfd >= 0) { dup2(logfd, 1); dup2(logfd, 2); close(logfd); logfd = 1; }
    }
    for (;;) {
        char c;
        ssize_t k = read(cmd_r, &c, 1);
        if (k <= 0) _exit(0);
        if (logfd >= 0 && lseek(1, 0, SEEK_CUR) > 0) { fflush(stdout); fflush(stderr); if (ftruncate(1, 0) == 0) lseek(1, 0, SEEK_SET); }
        window_on = 1;
        alarm(g_exec_timeout);
        pmc_run(g_config.c_str());
        alarm(0);
        fflush(stdout); fflush(stderr);
        if (t->status == ST_RUNNING) t->status = ST_OK;
        if (write(done_w, "d", 1) != 1) _exit(0);
    }
}

Outcome run_child1(Trace* t, const std::vector<Pt>& prefix, bool verbose, bool passthrough, bool fresh) {
    if (fresh || !g_reuse || g_runner.jobs >= g_recycle) kill_runner();
    t->status = ST_RUNNING; t->npts = 0; t->obslen = 0; t->obs[0] = 0; t->sig[0] = 0; t->detail[0] = 0; t->tag[0] = 0;
    t->prefix_len = prefix.size(); t->verbose = verbose; t->maxpts = g_maxpts;
    if (prefix.size() > g_maxpts) { fprintf(stderr, "prefix too long\n"); exit(2); }
    if (!prefix.empty()) memcpy(t->pts, prefix.data(), prefix.size() * sizeof(Pt));
    if (!g_runner.pid) {
        int a[2], b[2];
        if (pipe(a) || pipe(b)) { perror("pipe"); exit(2); }
        pid_t pid = fork();
        if (pid < 0) { perror("fork"); exit(2); }
        if (pid == 0) { close(a[1]); close(b[0]); runner_main(t, a[0], b[1], passthrough); _exit(0); }
        close(a[0]); close(b[1]);
        g_runner.pid = pid; g_runner.cmd_w = a[1]; g_runner.done_r = b[0]; g_runner.jobs = 0;
    }
    g_runner.jobs++;
    Outcome o; o.exitcode = 0; o.signo = 0;
    bool alive = true;
    if (write(g_runner.cmd_w, "g", 1) != 1) alive = false;
    if (alive) {
        struct pollfd pf = { g_runner.done_r, POLLIN, 0 };
        int pr;
        double tstart = now_s();
        for (;;) {
            pr = poll(&pf, 1, 1000);
            if (pr < 0 && errno == EINTR) continue;
            if (pr == 0) { if (now_s() - tstart > g_exec_timeout + 3) break; continue; }
            break;
        }
        char c;
        if (pr > 0 && (pf.revents & POLLIN) && read(g_runner.done_r, &c, 1) == 1) {
            o.status = t->status; o.sig = t->sig; o.detail = t->detail;
            if (o.status == ST_RUNNING) o.status = ST_OK;
            return o;
        }
        if (pr == 0) { kill(g_runner.pid, SIGKILL); }
        alive = false;
    }
    // runner ended (pmc_done, violation, crash, timeout)
    int st = 0;
    while (waitpid(g_runner.pid, &st, 0) < 0 && errno == EINTR) {}
    close(g_runner.cmd_w); close(g_runner.done_r); g_runner = Runner();
    o.exitcode = WIFEXITED(st) ? WEXITSTATUS(st) : -1; o.signo = WIFSIGNALED(st) ? WTERMSIG(st) : 0;
    o.status = t->status;
    if (o.status == ST_RUNNING) {
        if (o.signo == SIGKILL) o.signo = SIGALRM;      // our own timeout kill
        std::string log = passthrough ? std::string("(see output above)") : read_file_head(g_logpath);
        classify_crash(o, log);
        if (t->tag[0]) o.sig = std::string(t->tag) + o.sig;
    } else {
        o.sig = t->sig; o.detail = t->detail;
    }
    return o;
}

// a timed-out execution is re-run alone, in a fresh process, with a 6x limit before it is believed
// (a loaded machine can starve a freshly forked sanitizer process for seconds)
Outcome run_child(Trace* t, const std::vector<Pt>& prefix, bool verbose, bool passthrough, bool fresh = false) {
    Outcome o = run_child1(t, prefix, verbose, passthrough, fresh);
    if (o.status == ST_VIOLATION && o.sig == "timeout") {
        int saved = g_exec_timeout; g_exec_timeout = saved * 3;
        o = run_child1(t, prefix, verbose, passthrough, true);
        g_exec_timeout = saved;
    }
    return o;
}

void lock() { pthread_mutex_lock(&S->mu); }
void unlock() { pthread_mutex_unlock(&S->mu); }

bool htab_insert(uint64_t h) {      // returns true if new
    if (h == 0) h = 1;
    uint64_t i = h & (HN - 1);
    for (int probe = 0; probe < HN; probe++) {
        uint64_t cur = __sync_val_compare_and_swap(&S->htab[i], 0ull, h);
        if (cur == 0) return true;
        if (cur == h) return false;
        i = (i + 1) & (HN - 1);
    }
    return false;
}

QSlot* qslot(int i) { return (QSlot*)(Q + (size_t)i * qslot_bytes); }

bool shared_push_locked(const Item& it) {
    if (S->qcount >= QN || it.prefix.size() > g_maxprefix) return false;
    QSlot* s = qslot(S->qcount++);
    s->len = it.prefix.size(); memcpy(s->c, it.c, 3);
    memcpy((char*)s + sizeof(QSlot), it.prefix.data(), it.prefix.size() * sizeof(Pt));
    return true;
}
bool shared_pop_locked(Item& it) {
    if (S->qcount == 0) return false;
    QSlot* s = qslot(--S->qcount);
    it.prefix.resize(s->len); memcpy(it.c, s->c, 3);
    memcpy(it.prefix.data(), (char*)s + sizeof(QSlot), s->len * sizeof(Pt));
    return true;
}

struct Bounds { int cap[3]; int max_total; };

std::string choices_json(const Pt* pts, uint32_t n) {
    std::string s = "[";
    for (uint32_t i = 0; i < n; i++) {
        char b[48]; snprintf(b, sizeof b, "%s[%u,%u,%u]", i ? "," : "", pts[i].n, pts[i].kind, pts[i].chosen);
        s += b;
    }
    return s + "]";
}

std::string write_replay(const Trace* t, const Outcome& o, const char* tier) {
    // only non-default tail matters, but store the full recorded sequence up to the last nondefault choice
    uint32_t last = 0;
    for (uint32_t i = 0; i < t->npts; i++) if (t->pts[i].chosen) last = i + 1;
    uint64_t h = fnv(o.sig.data(), o.sig.size(), fnv(g_config.data(), g_config.size()));
    char name[600];
    mkdir(g_replaydir.c_str(), 0755);
    snprintf(name, sizeof name, "%s/%s-%s-%s-%016llx.json", g_replaydir.c_str(), pmc_property(), pmc_target(), g_config.c_str(), (unsigned long long)h);
    for (char* p = name + g_replaydir.size() + 1; *p; p++) if (*p == '/' || *p == ' ' || *p == ',' || *p == '=') *p = '_';
    FILE* f = fopen(name, "w");
    if (!f) return "";
    fprintf(f, "{\"property\":\"%s\",\"target\":\"%s\",\"config\":\"%s\",\"tier\":\"%s\",\n \"signature\":\"%s\",\n \"detail\":\"%s\",\n \"observation\":\"%s\",\n \"choices\":%s}\n",
            pmc_property(), pmc_target(), g_config.c_str(), tier, jesc(o.sig.c_str()).c_str(), jesc(o.detail.c_str()).c_str(),
            jesc(t->obs).c_str(), choices_json(t->pts, last).c_str());
    fclose(f);
    return name;
}

struct Sample { std::string choices, obs, status; };

struct WorkerResult { std::vector<Sample> samples; };

void set_broken(const std::string& msg) {
    lock(); if (!S->broken) { S->broken = 1; snprintf(S->broken_msg, sizeof S->broken_msg, "%s", msg.c_str()); } S->stop = 1; unlock();
}

void record_violation(Trace* t, Outcome& o, const std::vector<Pt>& full, const char* tier) {
    std::string sig0 = o.sig;
    uint64_t h = fnv(sig0.data(), sig0.size());
    // already known signature: just count (the determinism check below costs 2 process creations)
    lock();
    S->vio_total++;
    for (int i = 0; i < S->nvio; i++) if (S->vio[i].h == h && !strcmp(S->vio[i].sig, sig0.c_str())) { S->vio[i].count++; unlock(); return; }
    unlock();
    // determinism check: re-run twice with the full sequence, each time in a fresh process
    std::vector<Pt> savedpts(t->pts, t->pts + t->npts); uint32_t savedn = t->npts;
    std::string savedobs = t->obs;
    bool same = true; std::string why;
    for (int r = 0; r < 2 && same; r++) {
        Outcome o2 = run_child(t, full, false, false, true);
        if (o2.status == ST_VIOLATION && o.status == ST_VIOLATION && o2.sig != sig0) {
            // the same choices end in a violation in a fresh process too, but it shows differently (typical for memory corruption: what a
            // stale pointer hits depends on the history of the process). It is real; the fresh-process signature is the canonical one.
            static int depth = 0;
            memcpy(t->pts, savedpts.data(), savedn * sizeof(Pt)); t->npts = savedn; snprintf(t->obs, OBSMAX, "%s", savedobs.c_str());
            o.sig = o2.sig; o.detail = o2.detail + " [first seen as '" + sig0 + "' in a reused runner]";
            if (depth < 2) { depth++; lock(); S->vio_total--; unlock(); record_violation(t, o, full, tier); depth--; return; }
            sig0 = o.sig; h = fnv(sig0.data(), sig0.size()); break;      // keeps changing from run to run: record it under the latest signature
        }
        if (o2.status != o.status || o2.sig != sig0) { same = false; why = "rerun gave status=" + std::to_string(o2.status) + " sig=" + o2.sig + " detail=" + o2.detail; }
    }
    memcpy(t->pts, savedpts.data(), savedn * sizeof(Pt)); t->npts = savedn;
    snprintf(t->obs, OBSMAX, "%s", savedobs.c_str());
    if (!same) {
        set_broken("violation '" + sig0 + "' not reproducible on replay: " + why);
        return;
    }
    lock();
    int found = -1;
    for (int i = 0; i < S->nvio; i++) if (S->vio[i].h == h && !strcmp(S->vio[i].sig, sig0.c_str())) { found = i; break; }
    bool isnew = false;
    if (found < 0 && S->nvio < MAXVIO) {
        found = S->nvio++; isnew = true;
        S->vio[found].h = h; snprintf(S->vio[found].sig, SIGMAX, "%s", sig0.c_str());
        snprintf(S->vio[found].detail, DETMAX, "%s", o.detail.c_str());
        S->vio[found].count = 0; S->vio[found].replay[0] = 0;
    }
    if (found >= 0) S->vio[found].count++;
    unlock();
    if (isnew) {
        std::string path = write_replay(t, o, tier);
        lock(); snprintf(S->vio[found].replay, sizeof S->vio[found].replay, "%s", path.c_str()); unlock();
    }
}

bool load_frontier(const std::string& path, std::vector<Item>& local) {
    FILE* f = fopen(path.c_str(), "rb");
    if (!f) return false;
    for (;;) {
        uint32_t len; uint8_t c[4];
        if (fread(&len, 4, 1, f) != 1) break;
        if (fread(c, 1, 4, f) != 4) break;
        Item it; it.prefix.resize(len); memcpy(it.c, c, 3);
        if (len && fread(it.prefix.data(), sizeof(Pt), len, f) != len) break;
        local.push_back(std::move(it));
    }
    fclose(f); unlink(path.c_str());
    return true;
}

static int g_pin = 1;     // decided once per run from the load the machine had before we started
void worker_loop(int wid, int level, int maxlevel, int maxworkers, Bounds B, const char* tier, const std::string& base) {
    {   // worker and its runner strictly alternate: keep both on one CPU (cross-CPU wake-ups are costly in this VM)
        // ... but only on a machine that is otherwise idle: pinned to a CPU that other work keeps busy, a worker starves
        cpu_set_t cs; CPU_ZERO(&cs); long nc = sysconf(_SC_NPROCESSORS_ONLN); CPU_SET(wid % (nc > 0 ? nc : 1), &cs);
        if (g_pin) sched_setaffinity(0, sizeof cs, &cs);
    }
    T = alloc_trace();
    char lp[600]; snprintf(lp, sizeof lp, "%s/child.%s.%d.log", g_builddir.c_str(), pmc_target(), wid); g_logpath = lp;
    char fo[700], so[700];
    snprintf(fo, sizeof fo, "%s.frontier.%d.%d", base.c_str(), level + 1, wid);
    snprintf(so, sizeof so, "%s.samples.%d.%d", base.c_str(), level, wid);
    std::string frontier_out = fo, sample_out = so;
    std::vector<Item> local;
    FILE* fout = nullptr;
    std::vector<Sample> samples;
    bool am_active = false;
    uint64_t nexec = 0;
    for (;;) {
        if (S->stop) break;
        Item it;
        bool have = false;
        if (!local.empty()) {
            // donate when the shared queue runs low
            if (local.size() > 1 && S->qcount < 32) {
                lock();
                while (local.size() > 1 && S->qcount < 64) {
                    if (!shared_push_locked(local.front())) break;
                    local.erase(local.begin());
                }
                unlock();
            }
            it = std::move(local.back()); local.pop_back(); have = true;
        } else {
            lock();
            if (shared_pop_locked(it)) { have = true; if (!am_active) { S->active++; am_active = true; } }
            else if (level > 0 && S->next_frontier < maxworkers) {
                // claim an unread frontier file of this level (written by some worker of the previous level)
                int k = S->next_frontier++;
                if (!am_active) { S->active++; am_active = true; }
                unlock();
                char fi[700]; snprintf(fi, sizeof fi, "%s.frontier.%d.%d", base.c_str(), level, k);
                load_frontier(fi, local);
                continue;
            } else {
                if (am_active) { S->active--; am_active = false; }
                bool fin = (S->active == 0 && S->qcount == 0);
                unlock();
                if (fin) break;
                usleep(1000);
                continue;
            }
            unlock();
        }
        if (!have) continue;
        Outcome o = run_child(T, it.prefix, false, false);
        nexec++;
        uint32_t npts = T->npts;
        if (o.status == ST_NONDET) {
            // a reused runner may carry state from the previous execution: retry once in a fresh process
            if (g_reuse) { o = run_child(T, it.prefix, false, false, true); npts = T->npts; __sync_fetch_and_add(&S->retries_fresh, 1); }
            if (o.status == ST_NONDET) {
                // keep the diverging prefix for debugging (machinery error, never a violation)
                mkdir(g_replaydir.c_str(), 0755);
                std::string nm = g_replaydir + "/NONDET-" + pmc_property() + "-" + pmc_target() + ".json";
                if (FILE* f = fopen(nm.c_str(), "w")) { fprintf(f, "{\"config\":\"%s\",\"detail\":\"%s\",\n \"choices\":%s}\n", g_config.c_str(), jesc(o.detail.c_str()).c_str(), choices_json(it.prefix.data(), it.prefix.size()).c_str()); fclose(f); }
                set_broken(std::string("NONDETERMINISM: ") + o.detail + " (prefix in " + nm + ")"); break;
            }
        }
        if (g_reuse && g_selfcheck && o.status == ST_OK && nexec % g_selfcheck == 0) {
            // machinery self-check (not a deciding step): same choices in a fresh process must give the same observation
            std::string obs1 = T->obs; std::vector<Pt> full(T->pts, T->pts + npts);
            Outcome o2 = run_child(T, full, false, false, true);
            __sync_fetch_and_add(&S->selfchecks, 1);
            if (o2.status != ST_OK || obs1 != T->obs || T->npts != npts) {
                set_broken("state leaks between executions in a reused runner: obs '" + obs1.substr(0, 300) + "' vs fresh '" + std::string(T->obs).substr(0, 300) + "' status " + std::to_string(o2.status) + " " + o2.sig);
                break;
            }
        }
        if (o.status == ST_BROKEN) { set_broken(std::string("harness broken: ") + o.detail); break; }
        uint64_t oh = fnv(T->obs, T->obslen, fnv(o.sig.data(), o.sig.size()));
        bool newobs = htab_insert(oh);
        __sync_fetch_and_add(&S->executions, 1);
        __sync_fetch_and_add(&S->points_total, npts);
        if (newobs) __sync_fetch_and_add(&S->distinct_obs, 1);
        { uint64_t m = S->max_pts_seen; while (npts > m && !__sync_bool_compare_and_swap(&S->max_pts_seen, m, (uint64_t)npts)) m = S->max_pts_seen; }
        if (samples.size() < 3 && (newobs || samples.empty())) {
            uint32_t last = 0; for (uint32_t i = 0; i < npts; i++) if (T->pts[i].chosen) last = i + 1;
            Sample s; s.choices = choices_json(T->pts, std::min<uint32_t>(last, 64));
            s.obs = std::string(T->obs).substr(0, 400); s.status = o.status == ST_OK ? "ok" : o.sig;
            char b[64]; snprintf(b, sizeof b, " (points=%u)", npts); s.status += b;
            samples.push_back(s);
        }
        if (o.status == ST_VIOLATION) {
            std::vector<Pt> full(T->pts, T->pts + npts);
            record_violation(T, o, full, tier);
            if (S->broken) break;
        }
        // children
        uint64_t nodes = 0, fr = 0;
        for (uint32_t i = npts; i-- > it.prefix.size();) {     // reverse: DFS explores late deviations first
            Pt p = T->pts[i];
            if (p.n <= 1) continue;
            int c[3] = { it.c[0], it.c[1], it.c[2] };
            if (p.kind < 3) c[p.kind] += p.cost;
            if (c[0] > B.cap[0] || c[1] > B.cap[1] || c[2] > B.cap[2]) continue;
            int total = c[0] + c[1] + c[2];
            if (B.max_total > 0 && total > B.max_total) continue;
            if (total > maxlevel) continue;
            for (int alt = p.n - 1; alt >= 1; alt--) {
                Item ch; ch.prefix.assign(T->pts, T->pts + i + 1); ch.prefix[i].chosen = alt;
                ch.c[0] = c[0]; ch.c[1] = c[1]; ch.c[2] = c[2];
                if (total <= level) { local.push_back(std::move(ch)); nodes++; }
                else if (total == level + 1) {
                    if (!fout) fout = fopen(frontier_out.c_str(), "wb");
                    uint32_t len = ch.prefix.size(); uint8_t cc[4] = { ch.c[0], ch.c[1], ch.c[2], 0 };
                    fwrite(&len, 4, 1, fout); fwrite(cc, 1, 4, fout); fwrite(ch.prefix.data(), sizeof(Pt), len, fout);
                    fr++;
                }
                // total > level+1 cannot happen: one point adds at most cost 1
            }
        }
        __sync_fetch_and_add(&S->tree_nodes, nodes + fr);
        __sync_fetch_and_add(&S->frontier_items, fr);
    }
    kill_runner();
    if (getenv("PMC_DEBUG")) fprintf(stderr, "worker %d level %d: %llu executions\n", wid, level, (unsigned long long)nexec);
    if (am_active) { lock(); S->active--; unlock(); }
    if (fout) fclose(fout);
    FILE* sf = fopen(sample_out.c_str(), "w");
    if (sf) {
        for (auto& s : samples) fprintf(sf, "{\"choices\":%s,\"status\":\"%s\",\"observation\":\"%s\"}\n", s.choices.c_str(), jesc(s.status.c_str()).c_str(), jesc(s.obs.c_str()).c_str());
        fclose(sf);
    }
    _exit(0);
}

Shared* alloc_shared() {
    qslot_bytes = sizeof(QSlot) + sizeof(Pt) * (size_t)g_maxprefix;
    size_t bytes = sizeof(Shared) + qslot_bytes * QN;
    void* p = mmap(nullptr, bytes, PROT_READ | PROT_WRITE, MAP_SHARED | MAP_ANONYMOUS | MAP_NORESERVE, -1, 0);
    if (p == MAP_FAILED) { perror("mmap shared"); exit(2); }
    Shared* s = (Shared*)p;
    pthread_mutexattr_t a; pthread_mutexattr_init(&a); pthread_mutexattr_setpshared(&a, PTHREAD_PROCESS_SHARED);
    pthread_mutex_init(&s->mu, &a);
    Q = (char*)p + sizeof(Shared);
    return s;
}

struct ConfigResult {
    std::string name; int completed_level, target_level; bool exhaustive; uint64_t executions, points, nodes, distinct, maxpts;
    double wall; std::vector<std::string> samples; int cap[3];
    struct V { std::string sig, detail, replay; uint64_t count; }; std::vector<V> vios; uint64_t vio_total;
    bool broken; std::string broken_msg;
};

ConfigResult explore_config(const PmcConfig& cfg, int tieridx, int workers, double deadline_abs) {
    ConfigResult R; R.name = cfg.name; R.broken = false; R.vio_total = 0;
    g_config = cfg.name;
    Bounds B; B.cap[0] = cfg.bound_sched[tieridx]; B.cap[1] = cfg.bound_time[tieridx]; B.cap[2] = cfg.bound_env[tieridx];
    B.max_total = cfg.max_total[tieridx];
    int maxlevel = B.cap[0] + B.cap[1] + B.cap[2];
    if (B.max_total > 0 && B.max_total < maxlevel) maxlevel = B.max_total;
    memcpy(R.cap, B.cap, sizeof R.cap);
    R.target_level = maxlevel; R.completed_level = -1; R.exhaustive = false;
    const char* tier = tieridx ? "thorough" : "quick";
    double t0 = now_s();
    S = alloc_shared();
    uint64_t tot_exec = 0;
    std::string base = g_builddir + "/" + pmc_target() + "." + cfg.name;
    for (auto& ch : base) if (ch == ' ' || ch == ',' || ch == '=') ch = '_';
    for (int level = 0; level <= maxlevel; level++) {
        S->stop = 0; S->active = 0; S->qcount = 0; S->next_frontier = 0;
        if (level == 0) { Item root; root.c[0] = root.c[1] = root.c[2] = 0; lock(); shared_push_locked(root); unlock(); }
        // workers are spawned on demand: process creation and page faults are expensive and do not scale on this VM
        int spawned = 0; size_t alive = 0;
        auto spawn = [&]() {
            int w = spawned++;
            pid_t p = fork();
            if (p == 0) { prctl(PR_SET_PDEATHSIG, SIGKILL); worker_loop(w, level, maxlevel, workers, B, tier, base); }
            alive++;
        };
        spawn();
        double last_spawn = now_s();
        while (alive) {
            int st; pid_t p = waitpid(-1, &st, WNOHANG);
            if (p > 0) { alive--; if (!(WIFEXITED(st) && WEXITSTATUS(st) == 0)) { set_broken("explorer worker died abnormally"); } continue; }
            if (now_s() > deadline_abs && !S->stop) { S->stop = 1; }
            bool backlog = S->qcount >= 48 || (level > 0 && S->next_frontier < workers && S->active > 0);
            if (spawned < workers && !S->stop && backlog && S->executions > 200 && now_s() - last_spawn > 0.02) { spawn(); last_spawn = now_s(); }
            usleep(2000);
        }
        for (int w = 0; w < workers; w++) {
            char so[700]; snprintf(so, sizeof so, "%s.samples.%d.%d", base.c_str(), level, w);
            FILE* f = fopen(so, "r");
            if (f) { char* line = nullptr; size_t cap = 0; ssize_t k; while ((k = getline(&line, &cap, f)) > 0) { if (line[k - 1] == '\n') line[k - 1] = 0; if (R.samples.size() < 6) R.samples.push_back(line); } free(line); fclose(f); unlink(so); }
        }
        if (S->broken) { R.broken = true; R.broken_msg = S->broken_msg; break; }
        if (S->stop) break;           // deadline: this level incomplete
        R.completed_level = level;
        tot_exec = S->executions;
        if (S->frontier_items == 0 && level < maxlevel) { /* nothing beyond: all higher levels empty */ R.completed_level = maxlevel; break; }
        S->frontier_items = 0;
    }
    // clean leftover frontier files
    for (int level = 0; level <= maxlevel + 1; level++) for (int w = 0; w < workers; w++) {
        char fi[700]; snprintf(fi, sizeof fi, "%s.frontier.%d.%d", base.c_str(), level, w); unlink(fi);
    }
    (void)tot_exec;
    R.exhaustive = (R.completed_level >= maxlevel);
    R.executions = S->executions; R.points = S->points_total; R.nodes = S->tree_nodes + 1; R.distinct = S->distinct_obs; R.maxpts = S->max_pts_seen;
    R.vio_total = S->vio_total;
    for (int i = 0; i < S->nvio; i++) R.vios.push_back({ S->vio[i].sig, S->vio[i].detail, S->vio[i].replay, S->vio[i].count });
    R.wall = now_s() - t0;
    munmap(S, sizeof(Shared) + qslot_bytes * QN); S = nullptr;
    return R;
}

const char* argval(const char* name, const char* def) {
    for (int i = 1; i + 1 < g_argc; i++) if (!strcmp(g_argv[i], name)) return g_argv[i + 1];
    return def;
}
bool argflag(const char* name) { for (int i = 1; i < g_argc; i++) if (!strcmp(g_argv[i], name)) return true; return false; }

// minimal parser for the replay file
bool parse_replay(const std::string& path, std::string& config, std::vector<Pt>& seq) {
    std::string s = read_file_head(path, 1 << 22);
    size_t p = s.find("\"config\":\""); if (p == std::string::npos) return false;
    p += 10; size_t e = s.find('"', p); config = s.substr(p, e - p);
    p = s.find("\"choices\":["); if (p == std::string::npos) return false;
    p += 11;
    while (p < s.size() && s[p] != ']') {
        if (s[p] == '[') {
            unsigned a, b, c; if (sscanf(s.c_str() + p, "[%u,%u,%u]", &a, &b, &c) != 3) return false;
            Pt pt; pt.n = a; pt.kind = b; pt.chosen = c; pt.cost = 0; pt.pad = 0; seq.push_back(pt);
            p = s.find(']', p) + 1;
        } else p++;
    }
    return true;
}

}  // namespace

extern "C" int pmc_main(int argc, char** argv) {
    g_argc = argc; g_argv = argv;
    // deterministic address space in every process of the exploration
    int pers = personality(0xffffffff);
    if (pers != -1 && !(pers & ADDR_NO_RANDOMIZE) && !getenv("PMC_NO_REEXEC")) {
        personality(pers | ADDR_NO_RANDOMIZE);
        setenv("PMC_NO_REEXEC", "1", 1);
        execv("/proc/self/exe", argv);
    }
    setvbuf(stdout, nullptr, _IOLBF, 0);
    g_maxpts = atoi(argval("--maxpts", "20000"));
    g_exec_timeout = atoi(argval("--exec-timeout", "12"));
    if (argflag("--fresh")) g_reuse = false;
    g_selfcheck = atoi(argval("--selfcheck", "1009"));
    g_builddir = argval("--builddir", "/verif/build/tmp");
    g_replaydir = argval("--replaydir", "/verif/replays");
    mkdir(g_builddir.c_str(), 0755);
    int ncfg = 0; const PmcConfig* cfgs = pmc_configs(&ncfg);

    if (argflag("--list")) { for (int i = 0; i < ncfg; i++) printf("%s tiers=%d\n", cfgs[i].name, cfgs[i].tiers); return 0; }

    const char* rp = argval("--replay", nullptr);
    if (rp) {
        std::string config; std::vector<Pt> seq;
        if (!parse_replay(rp, config, seq)) { fprintf(stderr, "cannot parse replay file %s\n", rp); return 2; }
        g_config = config;
        bool known = false; for (int i = 0; i < ncfg; i++) if (config == cfgs[i].name) known = true;
        if (!known) { fprintf(stderr, "unknown config %s\n", config.c_str()); return 2; }
        T = alloc_trace();
        g_logpath = g_builddir + "/replay.log";
        Outcome o = run_child(T, seq, !argflag("--quiet"), true, true);
        printf("REPLAY config=%s status=%s sig=%s\n observation=%s\n detail=%s\n", config.c_str(),
               o.status == ST_OK ? "ok" : o.status == ST_VIOLATION ? "violation" : o.status == ST_NONDET ? "diverged" : "broken",
               o.sig.c_str(), T->obs, o.detail.c_str());
        return o.status == ST_OK ? 0 : o.status == ST_VIOLATION ? 1 : 2;
    }

    {   // instantaneous number of runnable tasks (4th field of /proc/loadavg, "running/total"): the load averages would still remember
        // the previous check's own workers
        double l1, l5, l15; int running = 0, total = 0; long nc = sysconf(_SC_NPROCESSORS_ONLN);
        if (FILE* lf = fopen("/proc/loadavg", "r")) { if (fscanf(lf, "%lf %lf %lf %d/%d", &l1, &l5, &l15, &running, &total) != 5) running = 0; fclose(lf); }
        g_pin = (!getenv("PMC_NOPIN") && running <= (nc > 0 ? nc : 1) / 4) ? 1 : 0; }
    const char* tier = argval("--tier", "quick");
    int tieridx = !strcmp(tier, "thorough") ? 1 : 0;
    int workers = atoi(argval("--workers", "16"));
    double deadline = atof(argval("--deadline", tieridx ? "1200" : "100"));
    const char* only = argval("--config", nullptr);
    const char* out = argval("--out", nullptr);
    double t0 = now_s();
    std::vector<ConfigResult> res;
    std::vector<int> sel;
    for (int i = 0; i < ncfg; i++) {
        if (only ? strcmp(only, cfgs[i].name) != 0 : !(cfgs[i].tiers & (1 << tieridx))) continue;
        sel.push_back(i);
    }
    bool broken = false;
    for (size_t k = 0; k < sel.size(); k++) {
        double remaining = deadline - (now_s() - t0);
        double share = remaining / (sel.size() - k);
        if (share < 2) share = 2;
        ConfigResult r = explore_config(cfgs[sel[k]], tieridx, workers, now_s() + share);
        printf("[%s/%s] config=%s level=%d/%d exhaustive=%d executions=%llu distinct_obs=%llu maxpts=%llu violations=%llu (%zu sigs) wall=%.1fs\n",
               pmc_property(), pmc_target(), r.name.c_str(), r.completed_level, r.target_level, (int)r.exhaustive,
               (unsigned long long)r.executions, (unsigned long long)r.distinct, (unsigned long long)r.maxpts,
               (unsigned long long)r.vio_total, r.vios.size(), r.wall);
        if (r.broken) { printf("BROKEN: %s\n", r.broken_msg.c_str()); broken = true; }
        res.push_back(r);
    }
    if (out) {
        FILE* f = fopen(out, "w");
        if (!f) { perror(out); return 2; }
        fprintf(f, "{\"property\":\"%s\",\"target\":\"%s\",\"tier\":\"%s\",\"wall_s\":%.2f,\"configs\":[\n", pmc_property(), pmc_target(), tier, now_s() - t0);
        for (size_t i = 0; i < res.size(); i++) {
            auto& r = res[i];
            fprintf(f, " {\"config\":\"%s\",\"bounds\":{\"preemptions\":%d,\"time_deviations\":%d,\"env_deviations\":%d},\"completed_level\":%d,\"target_level\":%d,\"exhaustive\":%s,"
                       "\"executions\":%llu,\"choice_points\":%llu,\"tree_nodes\":%llu,\"distinct_observations\":%llu,\"max_points\":%llu,\"wall_s\":%.2f,\"broken\":%s,\"broken_msg\":\"%s\",\n  \"samples\":[",
                    r.name.c_str(), r.cap[0], r.cap[1], r.cap[2], r.completed_level, r.target_level, r.exhaustive ? "true" : "false",
                    (unsigned long long)r.executions, (unsigned long long)r.points, (unsigned long long)r.nodes, (unsigned long long)r.distinct,
                    (unsigned long long)r.maxpts, r.wall, r.broken ? "true" : "false", jesc(r.broken_msg.c_str()).c_str());
            for (size_t j = 0; j < r.samples.size(); j++) fprintf(f, "%s%s", j ? "," : "", r.samples[j].c_str());
            fprintf(f, "],\n  \"violation_executions\":%llu,\"violations\":[", (unsigned long long)r.vio_total);
            for (size_t j = 0; j < r.vios.size(); j++)
                fprintf(f, "%s{\"signature\":\"%s\",\"count\":%llu,\"replay\":\"%s\",\"detail\":\"%s\"}", j ? "," : "", jesc(r.vios[j].sig.c_str()).c_str(),
                        (unsigned long long)r.vios[j].count, jesc(r.vios[j].replay.c_str()).c_str(), jesc(r.vios[j].detail.substr(0, 1500).c_str()).c_str());
            fprintf(f, "]}%s\n", i + 1 < res.size() ? "," : "");
        }
        fprintf(f, "]}\n");
        fclose(f);
    }
    if (broken) return 2;
    for (auto& r : res) if (!r.vios.empty()) return 1;
    return 0;
}
