// mv_photon.h -- photon glue for the mv runtime (compiled with the harness, instrumented like it)
#pragma once
#include "mv.h"
#include <photon/thread/thread.h>
#include <functional>

namespace mvp {
// photon::vcpu_init(flags) + model MasterEventEngine on the calling (registered) OS thread
void vcpu_begin(uint64_t vcpu_flags = 0);
void vcpu_end();
// start an OS thread that runs a vCPU: vcpu_begin, body(), vcpu_end. join with pthread_join / mvp::join.
pthread_t spawn_vcpu(std::function<void()> body, uint64_t vcpu_flags = 0, const char* name = "vcpu");
// plain OS thread (no photon)
pthread_t spawn_os(std::function<void()> body, const char* name = "os");
void join(pthread_t t);
// photon thread stacks from a pooled raw-mmap allocator (call once per execution before any vCPU starts)
// poison=true: a released stack (which holds the thread struct) is poisoned until reused: any access is a violation
void use_fast_stacks(bool poison = false);
}
