// sv_rt.h -- single-vCPU runtime for deviation-bounded exploration (DESIGN.md 2.4):
// virtual clock, model MasterEventEngine, deadlock detection. Compiled with the harness (ASan).
#pragma once
#include <stdint.h>
#include "pmc.h"

namespace sv {
extern uint64_t vnow;                       // virtual clock, microseconds
static const uint64_t T0 = 1000ull * 1000 * 1000;

extern bool use_fast_stacks;                // default true: photon stacks from raw mmap (set false before init() to keep the stock allocator)
void init();                                // photon::vcpu_init(), install the model engine
void fini();                                // vcpu_fini
void advance_to(uint64_t t);                // move the clock (never backwards)
void register_deadline(uint64_t abs_us);    // a deadline that a TIME deviation may jump to
// TIME choice point: default = time stands still; deviation (cost 1) = the earliest registered
// deadline > vnow passes now. Returns true if time moved.
bool time_point(const char* label);

// called when every photon thread is blocked with no finite (<10 s) deadline and the environment
// has no pending event. Default: pmc_violation("deadlock", ...). A harness may install its own
// handler (e.g. to evaluate "who is still blocked and is that legitimate", then pmc_done()).
extern void (*on_deadlock)();

// optional environment (mock streams etc.): next_event() returns true and the absolute time of the
// next scripted external event, fire(now) delivers all events due at `now`.
extern bool (*env_next_event)(uint64_t* when);
extern void (*env_fire)(uint64_t now);
extern uint64_t idle_waits;                 // number of times the vCPU went idle (clock advanced)
}
