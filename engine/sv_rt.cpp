#include "sv_rt.h"
#include <photon/thread/thread.h>
#include <photon/io/fd-events.h>
#include <photon/common/alog.h>
#include <photon/thread/stack-allocator.h>
#include <sys/mman.h>
#include <sanitizer/asan_interface.h>
#include <time.h>
#include <sys/time.h>
#include <vector>
#include <algorithm>

namespace photon { extern volatile uint64_t now; }

namespace sv {
uint64_t vnow = T0;
uint64_t idle_waits = 0;
static std::vector<uint64_t> deadlines;
static void default_deadlock() { pmc_violation("deadlock", "all photon threads blocked with no finite deadline at vnow=%llu", (unsigned long long)(vnow - T0)); }
void (*on_deadlock)() = default_deadlock;
bool (*env_next_event)(uint64_t*) = nullptr;
void (*env_fire)(uint64_t) = nullptr;

void advance_to(uint64_t t) {
    if (t > vnow) vnow = t;
    photon::now = vnow;
}

void register_deadline(uint64_t abs_us) { deadlines.push_back(abs_us); }

bool time_point(const char* label) {
    uint64_t best = 0;
    for (size_t i = 0; i < deadlines.size();) {
        if (deadlines[i] <= vnow) { deadlines[i] = deadlines.back(); deadlines.pop_back(); continue; }
        if (!best || deadlines[i] < best) best = deadlines[i];
        i++;
    }
    if (!best) return false;
    if (pmc_choose(2, PMC_TIME, 1, label)) { advance_to(best); return true; }
    return false;
}

class Engine : public photon::MasterEventEngine {
public:
    int wait_for_fd(int, uint32_t, photon::Timeout) override { errno = ENOSYS; return -1; }
    int cancel_wait() override { return 0; }
    ssize_t wait_and_fire_events(uint64_t timeout) override {
        if (timeout == 0) return 0;
        idle_waits++;
        uint64_t target = vnow + timeout;
        uint64_t evt = 0;
        bool has = env_next_event && env_next_event(&evt);
        if (has && evt <= target) {
            advance_to(evt);
            env_fire(vnow);
            return 0;
        }
        if (timeout >= 10ull * 1000 * 1000) {
            on_deadlock();          // normally does not return
        }
        advance_to(target);
        return 0;
    }
};

// plain mmap stacks: ASan's allocator spends ~2 ms re-mapping shadow for every 8 MB malloc/free
// and pooled: fresh page faults / page frees do not scale across processes on this VM (35x slowdown at 16 procs)
static std::vector<std::pair<void*, size_t>> stack_pool;
static void* fast_alloc(void*, size_t size) {
    for (size_t i = 0; i < stack_pool.size(); i++)
        if (stack_pool[i].second == size) { void* p = stack_pool[i].first; stack_pool[i] = stack_pool.back(); stack_pool.pop_back(); ASAN_UNPOISON_MEMORY_REGION(p, size); return p; }
    void* p = mmap(nullptr, size, PROT_READ | PROT_WRITE, MAP_PRIVATE | MAP_ANONYMOUS | MAP_NORESERVE, -1, 0);
    return p == MAP_FAILED ? nullptr : p;
}
// a released stack (it holds the thread struct and every frame of the finished thread) stays poisoned until it is reused:
// any later access through a stale pointer is an ASan "use-after-poison" report
static void fast_dealloc(void*, void* p, size_t size) { ASAN_POISON_MEMORY_REGION(p, size); stack_pool.push_back({p, size}); }
bool use_fast_stacks = true;

void init() {
    vnow = T0; photon::now = vnow; idle_waits = 0; deadlines.clear();
    on_deadlock = default_deadlock; env_next_event = nullptr; env_fire = nullptr;
    if (use_fast_stacks) photon::set_photon_thread_stack_allocator({&fast_alloc, nullptr}, {&fast_dealloc, nullptr});
    photon::vcpu_init();
    photon::fd_events_init(new Engine);
    advance_to(vnow);
    set_log_output_level(ALOG_ERROR);
}
void fini() { photon::reset_master_event_engine_default(); photon::vcpu_fini(); }
}  // namespace sv

// ---- time seams: everything PhotonLibOS reads as "time" is the virtual clock
extern "C" int clock_gettime(clockid_t, struct timespec* ts) {
    ts->tv_sec = sv::vnow / 1000000; ts->tv_nsec = (sv::vnow % 1000000) * 1000; return 0;
}
extern "C" int gettimeofday(struct timeval* tv, void*) {
    if (tv) { tv->tv_sec = sv::vnow / 1000000; tv->tv_usec = sv::vnow % 1000000; } return 0;
}
extern "C" time_t time(time_t* t) { time_t v = sv::vnow / 1000000; if (t) *t = v; return v; }

// vcpu_init() asks for the main thread's stack through pthread_getattr_np, which parses /proc/self/maps
// (thousands of lines under ASan) on every call: answer from a cache for the main thread.
#include <pthread.h>
#include <dlfcn.h>
#include <unistd.h>
#include <sys/syscall.h>
extern "C" int pthread_getattr_np(pthread_t th, pthread_attr_t* attr) {
    typedef int (*fn_t)(pthread_t, pthread_attr_t*);
    static fn_t real = (fn_t)dlsym(RTLD_NEXT, "pthread_getattr_np");
    static void* addr = nullptr; static size_t size = 0; static pthread_t main_th;
    bool is_main = (getpid() == (pid_t)syscall(SYS_gettid));
    if (is_main && size && pthread_equal(th, main_th)) {
        pthread_attr_init(attr);
        pthread_attr_setstack(attr, addr, size);
        return 0;
    }
    int r = real(th, attr);
    if (r == 0 && is_main && pthread_equal(th, pthread_self())) { main_th = th; pthread_attr_getstack(attr, &addr, &size); }
    return r;
}
extern "C" const char* __asan_default_options() {
    return "detect_leaks=0:quarantine_size_mb=4:exitcode=66:allocator_may_return_null=1:detect_stack_use_after_return=0:abort_on_error=0";
}
