// mv_prog.h -- tiny "program" runner shared by the mv harnesses (header-only, include in the harness TU).
// A program is  "<ops>,<ops>|<ops>|@<ops>" : '|' separates OS threads; each OS thread is a vCPU running the
// comma-separated photon threads, or (with a leading '@') a plain OS thread running one op string.
// run() spawns everything behind a start barrier, opens the exploration window when all vCPUs are initialised,
// closes it when the last program thread is done, joins, and returns.
#pragma once
#include "mv_photon.h"
#include <photon/thread/thread11.h>
#include <atomic>
#include <string.h>
#include <stdlib.h>
#include <string>
#include <vector>
#include <functional>

namespace mvprog {
// "gen<K>x<S>[+]" / "gen<K0>|<K1>x<S>[+]": build a program from explorer choices (kind PROG: always fully enumerated) instead of a fixed string: K photon threads on
// one vCPU, each with 1..S ops drawn from `alphabet` (every combination), each thread starting after 0..2 padding yields ('p': every arrival
// order); with '+' also 0..1 padding yields ('q') before each later op. Must be called inside the exploration window. "" if `spec` is not gen.
inline std::string generate(const char* spec, const std::vector<std::string>& alphabet) {
    // "gen<K>x<S>[+]" or "gen<K0>|<K1>[|<K2>]x<S>[+]": K0 threads on vCPU 0, K1 on vCPU 1, ...
    if (strncmp(spec, "gen", 3) != 0) return "";
    int ks[4] = {0}, nk = 0, S = 0; char plus = 0; const char* c = spec + 3;
    for (;;) { char* e; long v = strtol(c, &e, 10); if (e == c || nk >= 4) return ""; ks[nk++] = (int)v; c = e; if (*c == '|') { c++; continue; } break; }
    if (*c != 'x') return ""; { char* e; S = (int)strtol(c + 1, &e, 10); if (e == c + 1) return ""; plus = *e; }
    std::string prog;
    for (int g = 0; g < nk; g++) {
        if (g) prog += '|';
        for (int k = 0; k < ks[g]; k++) {
            if (k) prog += ',';
            prog += 'p';
            for (int sl = 0; sl < S; sl++) {
                int ch = pmc_choose((int)alphabet.size() + (sl ? 1 : 0), PMC_PROG, 0, "generated op");     // later slots may stay empty
                if (ch == (int)alphabet.size()) break;
                if (sl && plus == '+') prog += 'q';
                prog += alphabet[ch];
            }
        }
    }
    return prog;
}
struct PT { std::string ops; int os = 0, idx = 0; bool plain_os = false; photon::thread* th = nullptr; std::string result; bool done = false; };
struct Prog {
    std::vector<PT> pts; int nos = 0;
    uint64_t vcpu_flags = 0; uint64_t thread_flags = 0;
    std::atomic<int> go{0}, ready{0}, finished{0}, bodies_done{0};
    bool early_join = false;     // true: a vCPU joins (and disposes) its threads as soon as they finish
    std::function<void(int)> on_vcpu_start, on_vcpu_end;   // run on each vCPU (photon context) before the start barrier / after its joins
    void parse(const char* s) {
        std::string cur; int os = 0; bool plain = false;
        for (const char* c = s;; c++) {
            if (*c == ',' || *c == '|' || *c == 0) {
                if (!cur.empty()) { PT p; p.ops = cur; p.os = os; p.idx = pts.size(); p.plain_os = plain; pts.push_back(p); cur.clear(); }
                if (*c == '|') { os++; plain = false; }
                if (*c == 0) break;
            } else if (*c == '@' && cur.empty()) plain = true;
            else cur += *c;
        }
        nos = os + 1;
    }
    // "gen<K>x<S>[+]" (see generate() below) or a literal program
    bool parse_or_generate(const char* s, const std::vector<std::string>& alphabet) {
        std::string g = generate(s, alphabet);
        if (g.empty()) { parse(s); return false; }
        generated = g; parse(g.c_str()); return true;
    }
    std::string generated;
    // body(pt) runs the op string of one program thread
    void run(std::function<void(PT&)> body) {
        std::vector<pthread_t> ts;
        for (int os = 0; os < nos; os++) {
            bool plain = false; for (auto& p : pts) if (p.os == os && p.plain_os) plain = true;
            char nm[16]; snprintf(nm, sizeof nm, plain ? "os%d" : "vcpu%d", os);
            auto fn = [this, os, plain, body] {
                if (!plain && on_vcpu_start) on_vcpu_start(os);
                // photon threads are created before the start barrier (their handles exist when the window opens);
                // they first run when this vCPU's main thread blocks, i.e. after `go`
                std::vector<photon::join_handle*> jh;
                if (!plain) for (auto& p : pts) if (p.os == os) {
                    PT* pp = &p;
                    p.th = photon::thread_create11(64 * 1024, [this, pp, body] { body(*pp); pp->done = true; bodies_done++; });
                    jh.push_back(photon::thread_enable_join(p.th));
                }
                ready++;
                while (go.load() == 0) {}
                if (plain) { for (auto& p : pts) if (p.os == os) { body(p); p.done = true; bodies_done++; } }
                else {
                    // keep finished threads (their structs) alive until every body is done: a waker on another vCPU may
                    // still hold a pointer to a waiter that timed out (see DESIGN.md, finding "stale waiter pointer")
                    if (!early_join) {
                        int rounds = 0;
                        while (bodies_done.load() < (int)pts.size()) {
                            photon::thread_usleep(5ull * 1000 * 1000);
                            if (++rounds > 3) { mv_on_deadlock("program threads did not finish within 15 s of virtual time"); pmc_violation("stuck", "program did not finish"); }
                        }
                    }
                    for (auto h : jh) photon::thread_join(h);
                }
                if (++finished == nos) pmc_window(0);
                if (!plain && on_vcpu_end) { while (finished.load() < nos) photon::thread_usleep(5ull * 1000 * 1000); on_vcpu_end(os); }
            };
            ts.push_back(plain ? mvp::spawn_os(fn, nm) : mvp::spawn_vcpu(fn, vcpu_flags, nm));
        }
        while (ready.load() < nos) {}
        pmc_window(1);
        go = 1;
        for (auto t : ts) mvp::join(t);
        pmc_window(0);
    }
    std::string results() const { std::string o; for (auto& p : pts) { o += p.result; o += "/"; } return o; }
};
}  // namespace mvprog
