// mv.h -- controlled scheduler for OS threads / vCPUs (DESIGN.md 2.2). Runtime in mv_rt.cpp (uninstrumented),
// photon glue in mv_photon.cpp (compiled with the harness). Every std::atomic operation and every volatile access
// of code compiled with the "mv" flavor flags calls into the runtime (TSan ABI), which is a scheduling point.
#pragma once
#include <stdint.h>
#include <stddef.h>
#include <pthread.h>
#include "pmc.h"

#ifdef __cplusplus
extern "C" {
#endif
void mv_init(void);                     // reset the runtime, register the calling thread as thread 0
void mv_fini(void);                     // all other registered threads must have been joined
void mv_yield(const char* label);       // explicit scheduling point (a preemption may happen here)
uint64_t mv_now(void);                  // virtual clock, microseconds
void mv_register_deadline(uint64_t abs_us);   // a deadline a TIME deviation may jump to
void mv_tso(int on);                    // store-buffer mode: a non-seq_cst atomic store may stay in a one-entry per-thread store buffer
                                        // (ENV deviation, cost 1) until the thread's next store / RMW / fence / plain write / blocking
void mv_plain_region(const void* p, size_t n);   // plain (non-atomic) accesses into [p,p+n) become scheduling points too (lock-free structures)
void mv_switch_points(int on);          // the guarded context-switch hook is a scheduling point (default on)
void mv_time_deviations(int on);        // offer "next deadline passes now" at scheduling points (default off)
void mv_poison(const void* p, size_t n);      // any later instrumented access to [p,p+n) is a violation
void mv_unpoison(const void* p, size_t n);
int  mv_self(void);                     // id of the calling registered thread (-1 if none)
int  mv_nthreads(void);
void mv_set_name(const char* name);     // name of the calling thread in dumps
// idle wait of a vCPU: blocks until cancel (from any thread) or the virtual deadline. `cell` identifies the engine.
struct mv_idle_cell { volatile int cancelled; volatile int waiting; int owner; };
void mv_idle_wait(struct mv_idle_cell* cell, uint64_t timeout_us);
void mv_idle_cancel(struct mv_idle_cell* cell);
// called (with the baton held) when no thread can ever run again; default: pmc_violation("deadlock", dump)
extern void (*mv_on_deadlock)(const char* dump);
// statistics of the current execution
uint64_t mv_sched_points(void);
uint64_t mv_time_heur(void);            // clock advances made by the polling heuristics (a polling thread ran alone / all runnable threads were polling)
uint64_t mv_time_devs(void);            // TIME deviations taken so far: the clock moved although a thread could have run (models a stalled vCPU)
uint64_t mv_time_jumps(void);           // number of times the clock advanced because no thread could run (quiescent states reached)
#ifdef __cplusplus
}
#endif
#define MV_T0 (1000ull * 1000 * 1000)
