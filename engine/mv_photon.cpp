#include "mv_photon.h"
#include <photon/io/fd-events.h>
#include <photon/common/alog.h>
#include <photon/thread/stack-allocator.h>
#include <sys/mman.h>
#include <vector>

namespace mvp {
class ModelEngine : public photon::MasterEventEngine {
public:
    mv_idle_cell cell{0, 0, -1};
    int wait_for_fd(int, uint32_t, photon::Timeout) override { errno = ENOSYS; return -1; }
    int cancel_wait() override { mv_idle_cancel(&cell); return 0; }
    ssize_t wait_and_fire_events(uint64_t timeout) override {
        if (timeout == 0) { cell.cancelled = 0; return 0; }
        mv_idle_wait(&cell, timeout);
        return 0;
    }
};

// pooled raw-mmap stacks (fresh page faults and munmap are very expensive on this VM; see sv_rt.cpp)
static std::vector<std::pair<void*, size_t>> stack_pool;
static bool poison_freed = false;
static void* fast_alloc(void*, size_t size) {
    for (size_t i = 0; i < stack_pool.size(); i++)
        if (stack_pool[i].second == size) { void* p = stack_pool[i].first; stack_pool[i] = stack_pool.back(); stack_pool.pop_back(); if (poison_freed) mv_unpoison(p, size); return p; }
    void* p = mmap(nullptr, size, PROT_READ | PROT_WRITE, MAP_PRIVATE | MAP_ANONYMOUS | MAP_NORESERVE, -1, 0);
    return p == MAP_FAILED ? nullptr : p;
}
static void fast_dealloc(void*, void* p, size_t size) { if (poison_freed) mv_poison(p, size); stack_pool.push_back({p, size}); }
void use_fast_stacks(bool poison) {
    // a new execution starts: nothing is poisoned any more (mv_init cleared the map)
    poison_freed = poison;
    photon::set_photon_thread_stack_allocator({&fast_alloc, nullptr}, {&fast_dealloc, nullptr});
}

void vcpu_begin(uint64_t flags) {
    photon::vcpu_init(flags);
    photon::fd_events_init(new ModelEngine);
    set_log_output_level(ALOG_ERROR);
}
void vcpu_end() {
    photon::reset_master_event_engine_default();
    photon::vcpu_fini();
}

struct Start { std::function<void()> body; uint64_t flags; bool photon; char name[24]; };
static void* entry(void* p) {
    Start* s = (Start*)p;
    mv_set_name(s->name);
    if (s->photon) vcpu_begin(s->flags);
    s->body();
    if (s->photon) vcpu_end();
    delete s;
    return nullptr;
}
pthread_t spawn_vcpu(std::function<void()> body, uint64_t flags, const char* name) {
    auto s = new Start{std::move(body), flags, true, {0}}; snprintf(s->name, sizeof s->name, "%s", name);
    pthread_t t; pthread_create(&t, nullptr, entry, s); return t;
}
pthread_t spawn_os(std::function<void()> body, const char* name) {
    auto s = new Start{std::move(body), 0, false, {0}}; snprintf(s->name, sizeof s->name, "%s", name);
    pthread_t t; pthread_create(&t, nullptr, entry, s); return t;
}
void join(pthread_t t) { pthread_join(t, nullptr); }
}
