// seqx.h -- bounded-exhaustive enumeration helper (DESIGN.md 2.6). Header-only; include once in the harness.
//
// The harness defines
//     static void seqx_enumerate(seqx::Ctx& c, bool thorough);
// which enumerates ALL cases of its alphabet deterministically (same order every time). Around each case:
//     if (!c.begin("fmt", ...)) continue;   // case descriptor (printf style); false = skip (other shard / resume / replay filter)
//     ... run the real code, compare with the reference model ...
//     c.cls(hash);                          // relation-class signature of this case (distinct_nontrivial counts distinct ones)
//     if (bad) c.fail("signature", "detail fmt", ...);
// and ends with   SEQX_MAIN("C15", "rsplit", "rule text")
// Cases are dealt round-robin to `workers` shard processes (case index % nshards). A shard that dies (ASan report,
// signal) is classified from its log, the dying case becomes a violation with a replay file, and the shard is
// restarted after that case. Deadline => exhaustive:false. Exit 0 ok / 1 violations / 2 broken.
#pragma once
#include <stdio.h>
#include <stdlib.h>
#include <string.h>
#include <stdarg.h>
#include <stdint.h>
#include <unistd.h>
#include <errno.h>
#include <signal.h>
#include <fcntl.h>
#include <time.h>
#include <sys/mman.h>
#include <sys/wait.h>
#include <sys/stat.h>
#include <sys/syscall.h>
#include <sys/prctl.h>
#include <string>
#include <vector>
#include <unordered_set>
#include <algorithm>

namespace seqx {

static inline double now_s() { timespec ts; syscall(SYS_clock_gettime, CLOCK_MONOTONIC, &ts); return ts.tv_sec + ts.tv_nsec * 1e-9; }
static inline uint64_t fnv(const void* p, size_t n, uint64_t h = 1469598103934665603ull) {
    auto b = (const unsigned char*)p; for (size_t i = 0; i < n; i++) { h ^= b[i]; h *= 1099511628211ull; } return h;
}
static inline uint64_t mix(uint64_t h, uint64_t v) { h ^= v + 0x9e3779b97f4a7c15ull + (h << 6) + (h >> 2); return h * 1099511628211ull; }
static inline std::string jesc(const std::string& s) {
    std::string o;
    for (unsigned char c : s) {
        if (c == '"' || c == '\\') { o += '\\'; o += c; }
        else if (c == '\n') o += "\\n"; else if (c == '\t') o += "\\t";
        else if (c < 0x20 || c >= 0x7f) { char b[8]; snprintf(b, sizeof b, "\\u%04x", c); o += b; }
        else o += c;
    }
    return o;
}

enum { MAXV = 24, DESC = 2048 };
struct ShardShared {
    volatile uint64_t index;          // index of the case being executed
    volatile uint64_t evaluated;      // cases fully evaluated by this shard
    volatile int in_case;
    volatile int finished;            // enumeration ran to the end
    volatile int deadline_hit;
    char cur[DESC];
    int nv;
    struct V { char sig[200]; char desc[DESC]; char detail[1024]; uint64_t index; uint64_t count; } v[MAXV];
    uint64_t vio_total;
    int nsamples; char samples[4][DESC];
};

struct Ctx {
    ShardShared* sh = nullptr;
    int shard = 0, nshards = 1;
    uint64_t counter = 0;             // global case counter (all shards count all cases)
    uint64_t skip_upto = 0;           // resume: skip own cases with index < skip_upto
    bool has_only = false; uint64_t only_index = 0;   // replay filter
    double deadline_abs = 0;
    bool verbose = false;
    std::unordered_set<uint64_t> classes;
    bool stop = false;

    bool begin(const char* fmt, ...) __attribute__((format(printf, 2, 3))) {
        uint64_t idx = counter++;
        // any call of begin() means the previous case of this shard has run to its end (the per-case watchdog only looks at in_case)
        if (sh->in_case) { sh->evaluated++; sh->in_case = 0; }
        if (stop) return false;
        if (has_only) { if (idx != only_index) return false; }
        else {
            if ((int)(idx % nshards) != shard) return false;
            if (idx < skip_upto) return false;
            if ((idx & 0x3ff) == (uint64_t)shard && deadline_abs > 0 && now_s() > deadline_abs) { sh->deadline_hit = 1; stop = true; return false; }
        }
        va_list ap; va_start(ap, fmt); vsnprintf(sh->cur, DESC, fmt, ap); va_end(ap);
        sh->index = idx; sh->in_case = 1;
        if (verbose) fprintf(stderr, "[case %llu] %s\n", (unsigned long long)idx, sh->cur);
        if (sh->nsamples < 4 && (idx % 9973 == 0 || has_only)) { memcpy(sh->samples[sh->nsamples++], sh->cur, DESC); }
        return true;
    }
    void end() { if (sh->in_case) { sh->evaluated++; sh->in_case = 0; } }     // optional: begin() of the next case implies it
    void cls(uint64_t h) { if (classes.size() < (5u << 20)) classes.insert(h); }
    void fail(const char* sig, const char* fmt, ...) __attribute__((format(printf, 3, 4))) {
        char det[1024]; va_list ap; va_start(ap, fmt); vsnprintf(det, sizeof det, fmt, ap); va_end(ap);
        if (verbose) fprintf(stderr, "FAIL sig=%s case=%s\n  %s\n", sig, sh->cur, det);
        sh->vio_total++;
        for (int i = 0; i < sh->nv; i++) if (!strcmp(sh->v[i].sig, sig)) { sh->v[i].count++; return; }
        if (sh->nv >= MAXV) return;
        auto& v = sh->v[sh->nv];
        snprintf(v.sig, sizeof v.sig, "%s", sig); memcpy(v.desc, sh->cur, DESC); snprintf(v.detail, sizeof v.detail, "%s", det);
        v.index = sh->index; v.count = 1; sh->nv++;
    }
};

struct Violation { std::string sig, desc, detail, replay; uint64_t index, count; };

static inline std::string classify_log(const std::string& log, int signo, int exitcode) {
    size_t p;
    if ((p = log.find("ERROR: AddressSanitizer: ")) != std::string::npos) {
        size_t q = p + strlen("ERROR: AddressSanitizer: "); size_t e = log.find_first_of(" \n", q); return "asan:" + log.substr(q, e - q);
    }
    if ((p = log.find("runtime error: ")) != std::string::npos) {
        size_t q = p + strlen("runtime error: "); size_t e = log.find('\n', q);
        std::string m = log.substr(q, std::min(e, q + 80) - q); for (auto& ch : m) if (ch >= '0' && ch <= '9') ch = '#'; return "ubsan:" + m;
    }
    if ((p = log.find("Assertion `")) != std::string::npos) { size_t q = p + 11; size_t e = log.find("' failed", q); return "assert:" + log.substr(q, std::min(e, q + 120) - q); }
    if (signo == SIGALRM || signo == SIGKILL) return "timeout";
    if (signo) return std::string("crash:") + (signo == SIGSEGV ? "SIGSEGV" : signo == SIGABRT ? "SIGABRT" : signo == SIGBUS ? "SIGBUS" : signo == SIGFPE ? "SIGFPE" : "signal");
    char b[32]; snprintf(b, sizeof b, "crash:exit%d", exitcode); return b;
}

typedef void (*EnumFn)(Ctx&, bool thorough);

static inline const char* argval(int argc, char** argv, const char* name, const char* def) {
    for (int i = 1; i + 1 < argc; i++) if (!strcmp(argv[i], name)) return argv[i + 1];
    return def;
}

static inline int seqx_main(int argc, char** argv, const char* property, const char* target, const char* rule, EnumFn fn, int case_timeout_s = 20) {
    setvbuf(stdout, nullptr, _IOLBF, 0);
    std::string tier = argval(argc, argv, "--tier", "quick");
    bool thorough = tier == "thorough";
    int workers = atoi(argval(argc, argv, "--workers", "16"));
    double deadline = atof(argval(argc, argv, "--deadline", thorough ? "1200" : "100"));
    std::string out = argval(argc, argv, "--out", "");
    std::string builddir = argval(argc, argv, "--builddir", "/verif/build/tmp");
    std::string replaydir = argval(argc, argv, "--replaydir", "/verif/replays");
    const char* replay = argval(argc, argv, "--replay", nullptr);
    mkdir(builddir.c_str(), 0755); mkdir(replaydir.c_str(), 0755);
    double t0 = now_s();

    if (replay) {
        FILE* f = fopen(replay, "r"); if (!f) { perror(replay); return 2; }
        std::string s; char buf[4096]; size_t k; while ((k = fread(buf, 1, sizeof buf, f)) > 0) s.append(buf, k); fclose(f);
        size_t p = s.find("\"index\":"); if (p == std::string::npos) { fprintf(stderr, "no index in replay file\n"); return 2; }
        uint64_t idx = strtoull(s.c_str() + p + 8, nullptr, 10);
        bool th = s.find("\"tier\":\"thorough\"") != std::string::npos;
        ShardShared* sh = (ShardShared*)mmap(nullptr, sizeof(ShardShared), PROT_READ | PROT_WRITE, MAP_SHARED | MAP_ANONYMOUS, -1, 0);
        Ctx c; c.sh = sh; c.has_only = true; c.only_index = idx; c.verbose = true;
        pid_t pid = fork();
        if (pid == 0) { fn(c, th); _exit(sh->nv ? 1 : 0); }
        int st; waitpid(pid, &st, 0);
        if (!WIFEXITED(st) || (WEXITSTATUS(st) != 0 && WEXITSTATUS(st) != 1)) { printf("REPLAY case=%s status=crash (see output above)\n", sh->cur); return 1; }
        printf("REPLAY index=%llu case=%s status=%s%s%s\n", (unsigned long long)idx, sh->cur, sh->nv ? "violation sig=" : "ok", sh->nv ? sh->v[0].sig : "", "");
        if (sh->nv) printf(" detail=%s\n", sh->v[0].detail);
        return sh->nv ? 1 : 0;
    }

    std::vector<ShardShared*> shs(workers);
    std::vector<pid_t> pids(workers, 0);
    std::vector<uint64_t> skip(workers, 0);
    std::vector<int> restarts(workers, 0);
    std::vector<Violation> vios;
    uint64_t crash_total = 0;
    bool broken = false; std::string broken_msg;
    auto logpath = [&](int w) { char b[600]; snprintf(b, sizeof b, "%s/shard.%s.%d.log", builddir.c_str(), target, w); return std::string(b); };
    auto clspath = [&](int w) { char b[600]; snprintf(b, sizeof b, "%s/shard.%s.%d.cls", builddir.c_str(), target, w); return std::string(b); };
    auto launch = [&](int w) {
        pid_t pid = fork();
        if (pid == 0) {
            prctl(PR_SET_PDEATHSIG, SIGKILL);
            int fd = open(logpath(w).c_str(), O_WRONLY | O_CREAT | O_TRUNC, 0644); if (fd >= 0) { dup2(fd, 1); dup2(fd, 2); close(fd); }
            Ctx c; c.sh = shs[w]; c.shard = w; c.nshards = workers; c.skip_upto = skip[w]; c.deadline_abs = t0 + deadline;
            fn(c, thorough);
            c.end();
            if (!c.stop) c.sh->finished = 1;
            FILE* f = fopen(clspath(w).c_str(), restarts[w] ? "ab" : "wb");
            if (f) { std::vector<uint64_t> v(c.classes.begin(), c.classes.end()); if (!v.empty()) fwrite(v.data(), 8, v.size(), f); fclose(f); }
            fflush(stdout); fflush(stderr);
            _exit(0);
        }
        pids[w] = pid;
    };
    for (int w = 0; w < workers; w++) {
        shs[w] = (ShardShared*)mmap(nullptr, sizeof(ShardShared), PROT_READ | PROT_WRITE, MAP_SHARED | MAP_ANONYMOUS, -1, 0);
        unlink(clspath(w).c_str());
        launch(w);
    }
    int alive = workers;
    std::vector<double> last_progress(workers, now_s()); std::vector<uint64_t> last_index(workers, 0);
    while (alive) {
        int st; pid_t p = waitpid(-1, &st, WNOHANG);
        if (p <= 0) {
            usleep(5000);
            for (int w = 0; w < workers; w++) if (pids[w]) {   // per-case watchdog
                if (shs[w]->index != last_index[w] || !shs[w]->in_case) { last_index[w] = shs[w]->index; last_progress[w] = now_s(); }
                else if (now_s() - last_progress[w] > case_timeout_s) { kill(pids[w], SIGKILL); last_progress[w] = now_s(); }
            }
            continue;
        }
        int w = -1; for (int i = 0; i < workers; i++) if (pids[i] == p) w = i;
        if (w < 0) continue;
        pids[w] = 0;
        bool clean = WIFEXITED(st) && WEXITSTATUS(st) == 0;
        if (clean) { alive--; continue; }
        // crashed inside a case (or outside: broken)
        ShardShared* sh = shs[w];
        std::string log; { FILE* f = fopen(logpath(w).c_str(), "r"); if (f) { char buf[8192]; size_t k = fread(buf, 1, sizeof buf - 1, f); buf[k] = 0; log = buf; fclose(f); } }
        if (!sh->in_case) { broken = true; broken_msg = "shard died outside a case: " + log.substr(0, 800); alive--; continue; }
        std::string sig = classify_log(log, WIFSIGNALED(st) ? WTERMSIG(st) : 0, WIFEXITED(st) ? WEXITSTATUS(st) : -1);
        crash_total++;
        bool found = false; for (auto& v : vios) if (v.sig == sig) { v.count++; found = true; }
        if (!found) vios.push_back({sig, sh->cur, log.substr(0, 1500), "", sh->index, 1});
        skip[w] = sh->index + 1; restarts[w]++;
        if (restarts[w] > 200) { broken = true; broken_msg = "shard restarted more than 200 times"; alive--; continue; }
        sh->in_case = 0;
        launch(w);
    }
    // merge
    uint64_t evaluations = 0, vio_total = crash_total; bool exhaustive = true; std::vector<std::string> samples;
    std::unordered_set<uint64_t> classes;
    for (int w = 0; w < workers; w++) {
        ShardShared* sh = shs[w];
        evaluations += sh->evaluated; if (!sh->finished) exhaustive = false;
        vio_total += sh->vio_total;
        for (int i = 0; i < sh->nv; i++) {
            bool found = false; for (auto& v : vios) if (v.sig == sh->v[i].sig) { v.count += sh->v[i].count; if (sh->v[i].index < v.index) { v.index = sh->v[i].index; v.desc = sh->v[i].desc; v.detail = sh->v[i].detail; } found = true; }
            if (!found) vios.push_back({sh->v[i].sig, sh->v[i].desc, sh->v[i].detail, "", sh->v[i].index, sh->v[i].count});
        }
        for (int i = 0; i < sh->nsamples && samples.size() < 6; i++) samples.push_back(sh->samples[i]);
        FILE* f = fopen(clspath(w).c_str(), "rb");
        if (f) { uint64_t buf[1024]; size_t k; while ((k = fread(buf, 8, 1024, f)) > 0) for (size_t i = 0; i < k; i++) classes.insert(buf[i]); fclose(f); unlink(clspath(w).c_str()); }
    }
    for (auto& v : vios) {
        char name[700]; snprintf(name, sizeof name, "%s/%s-%s-%016llx.json", replaydir.c_str(), property, target, (unsigned long long)fnv(v.sig.data(), v.sig.size()));
        FILE* f = fopen(name, "w");
        if (f) { fprintf(f, "{\"property\":\"%s\",\"target\":\"%s\",\"tier\":\"%s\",\"index\":%llu,\n \"signature\":\"%s\",\n \"case\":\"%s\",\n \"detail\":\"%s\"}\n", property, target, tier.c_str(),
                         (unsigned long long)v.index, jesc(v.sig).c_str(), jesc(v.desc).c_str(), jesc(v.detail).c_str()); fclose(f); v.replay = name; }
    }
    double wall = now_s() - t0;
    printf("[%s/%s] tier=%s evaluations=%llu distinct_classes=%zu exhaustive=%d violations=%llu (%zu sigs) wall=%.1fs\n", property, target, tier.c_str(),
           (unsigned long long)evaluations, classes.size(), (int)exhaustive, (unsigned long long)vio_total, vios.size(), wall);
    if (broken) printf("BROKEN: %s\n", broken_msg.c_str());
    if (!out.empty()) {
        FILE* f = fopen(out.c_str(), "w"); if (!f) { perror(out.c_str()); return 2; }
        fprintf(f, "{\"property\":\"%s\",\"target\":\"%s\",\"tier\":\"%s\",\"evaluations\":%llu,\"distinct_nontrivial\":%zu,\"exhaustive\":%s,\"wall_s\":%.2f,\"broken\":%s,\"broken_msg\":\"%s\",\n \"rule\":\"%s\",\n \"samples\":[",
                property, target, tier.c_str(), (unsigned long long)evaluations, classes.size(), exhaustive ? "true" : "false", wall, broken ? "true" : "false", jesc(broken_msg).c_str(), jesc(rule).c_str());
        for (size_t i = 0; i < samples.size(); i++) fprintf(f, "%s\"%s\"", i ? "," : "", jesc(samples[i]).c_str());
        fprintf(f, "],\n \"violation_cases\":%llu,\"violations\":[", (unsigned long long)vio_total);
        for (size_t i = 0; i < vios.size(); i++)
            fprintf(f, "%s{\"signature\":\"%s\",\"count\":%llu,\"replay\":\"%s\",\"case\":\"%s\",\"detail\":\"%s\"}", i ? "," : "", jesc(vios[i].sig).c_str(), (unsigned long long)vios[i].count,
                    jesc(vios[i].replay).c_str(), jesc(vios[i].desc).c_str(), jesc(vios[i].detail.substr(0, 900)).c_str());
        fprintf(f, "]}\n"); fclose(f);
    }
    if (broken) return 2;
    return vios.empty() ? 0 : 1;
}
}  // namespace seqx

#define SEQX_MAIN(PROP, TARGET, RULE) \
    extern "C" const char* __asan_default_options() { return "detect_leaks=0:quarantine_size_mb=4:exitcode=66:allocator_may_return_null=1:abort_on_error=0"; } \
    int main(int argc, char** argv) { return seqx::seqx_main(argc, argv, PROP, TARGET, RULE, seqx_enumerate); }
