// C12 ser: photon::rpc serialization. Bounded-exhaustive enumeration, two parts.
//  (A) round trip: message -> SerializerIOV -> flat bytes -> every fragmentation into 1..3 exact-size heap blocks
//      -> DeserializerIOV -> field-wise comparison with the sender's message (sorted_map: against a std::string model).
//  (B) hostile input, derived from every valid image: every tail and head truncation; every length / offset / pointer
//      field (located by a reference parser of the valid image, incl. fields of array<Message> elements, sorted_map
//      index slices and the bodies of map values) overwritten with boundary values; both words of a sorted_map slice
//      overwritten together; every byte flipped (checked messages); (thorough) an 8-byte word overwritten at every
//      offset. Each hostile image is presented in every 1- and 2-piece fragmentation (thorough: plus 3 pieces cut at
//      payload/body boundaries for field corruptions).
//      Oracle (property statement): deserialize() returns null, or a message whose body and every variable-length
//      field lies inside the supplied blocks (or inside a buffer the input iovector allocated for a straddling
//      field: iovector::do_malloc -> IOAlloc, recorded by the harness allocator; sorted_map entries: inside
//      base_buffer); no ASan report / crash while deserializing or while reading every field, iterating the map and
//      looking up present and absent keys; an altered CheckedMessage is rejected (unless the stored checksum was
//      overwritten together with other bytes, which no checksum can exclude).
//      To keep one defect from killing thousands of shard processes, the harness checks every pointer the library
//      hands out (or is about to dereference in sorted_map iteration/lookup) against the supplied blocks BEFORE it is
//      dereferenced, and contains SIGSEGV inside the library with sigsetjmp.
// Build is -DNDEBUG like the shipped library: asserts protect nothing.
// Debug aids (environment): C12_LIVE=1 disables the pre-checks on sorted_map slices, so that a replayed case lets the
// library really dereference them (ASan then shows the out-of-bounds access); C12_GREP=substr prints index+descriptor
// of matching cases to the shard log; C12_COUNT=file only counts cases per type; C12_FAILLOG=prefix logs failing cases.
#include "seqx.h"
#include <photon/rpc/serialize.h>
#include <setjmp.h>
#include <memory>
#include <map>
#include <type_traits>

namespace rpc = photon::rpc;
typedef rpc::string rstring;

// ------------------------------------------------------------------------------------------------ message types
struct Pod { int64_t u; int32_t v; int32_t w; };

struct Inner : rpc::Message { int32_t tag = 0; rstring s; PROCESS_FIELDS(tag, s); };
struct InnerC : rpc::CheckedMessage<> { int32_t tag = 0; rstring s; PROCESS_FIELDS(tag, s); };
struct MapVal : rpc::Message {
    MapVal() = default;
    int32_t a = 0; rstring b; char c = 0;
    PROCESS_FIELDS(a, b, c);
};
typedef rpc::sorted_map<rstring, MapVal> SMap;
typedef rpc::sorted_map_factory<rstring, MapVal> SMapFactory;

#define DEF_FIXED(NAME, BASE)   struct NAME : BASE { int32_t a; double d; char c; PROCESS_FIELDS(a, d, c); };
#define DEF_BASIC(NAME, BASE)   struct NAME : BASE { int32_t a; rpc::buffer buf; uint64_t b; rstring str; rpc::array<int32_t> arr; char c; \
                                                     PROCESS_FIELDS(a, buf, b, str, arr, c); };
#define DEF_ALIGNED(NAME, BASE) struct NAME : BASE { int32_t x; rpc::buffer b1; rpc::aligned_buffer ab; rpc::iovec_array iv; rpc::aligned_iovec_array aiv; uint16_t y; \
                                                     PROCESS_FIELDS(x, b1, ab, iv, aiv, y); };
#define DEF_NESTED(NAME, BASE, IN) struct NAME : BASE { int32_t x; IN in1; rpc::array<IN> ai; rpc::fixed_buffer<Pod> fb = rpc::fixed_buffer<Pod>(nullptr, 0); rstring tail; \
                                                     PROCESS_FIELDS(x, in1, ai, fb, tail); };
#define DEF_MAP(NAME, BASE)     struct NAME : BASE { int32_t code; rpc::buffer buf; SMap map; rstring tail; PROCESS_FIELDS(code, buf, map, tail); };
DEF_FIXED(Fixed, rpc::Message)        DEF_FIXED(FixedC, rpc::CheckedMessage<>)
DEF_BASIC(Basic, rpc::Message)        DEF_BASIC(BasicC, rpc::CheckedMessage<>)
DEF_ALIGNED(Aligned, rpc::Message)    DEF_ALIGNED(AlignedC, rpc::CheckedMessage<>)
DEF_NESTED(Nested, rpc::Message, Inner) DEF_NESTED(NestedC, rpc::CheckedMessage<>, InnerC)
DEF_MAP(WithMap, rpc::Message)        DEF_MAP(WithMapC, rpc::CheckedMessage<>)

static_assert(sizeof(rpc::CheckedMessage<>) == 4, "the harness assumes m_checksum (uint32) is the first 4 bytes of a checked message body");

// ------------------------------------------------------------------------------------------------ small helpers
struct Regions {
    struct R { const char* p; size_t n; };
    std::vector<R> v;
    void add(const void* p, size_t n) { v.push_back({(const char*)p, n}); }
    bool in(const void* p, size_t n) const {
        if (n == 0) return true;
        for (auto& r : v)
            if ((const char*)p >= r.p && n <= r.n && (size_t)((const char*)p - r.p) <= r.n - n) return true;
        return false;
    }
};

// allocator handed to the input IOVector: exact-size blocks, recorded, so that copies of straddling fields are
// (1) under ASan red zones and (2) known to the bounds oracle
struct RecAlloc {
    std::vector<Regions::R> blocks;
    static int alloc(void* self, IOAlloc::RangeSize sz, void** ptr) {
        void* p = ::malloc((size_t)sz.max);
        *ptr = p;
        if (!p) return -1;
        ((RecAlloc*)self)->blocks.push_back({(const char*)p, (size_t)sz.max});
        return sz.max;
    }
    static int dealloc(void*, void* p) { ::free(p); return 0; }
};

static std::string fmt(const char* f, ...) __attribute__((format(printf, 1, 2)));
static bool g_live = false;
static const char* g_count = nullptr;     // C12_COUNT=file: do not execute anything, append the number of cases per message type to the file
static FILE* g_faillog = nullptr;          // C12_FAILLOG=prefix: every shard appends "signature<TAB>case" of failing cases to prefix.<shard>
static const char* g_grep = nullptr;      // C12_GREP=substring: print index + descriptor of matching cases (debug aid for building replay files)
static bool grep_begin(seqx::Ctx& c, const char* f, ...) __attribute__((format(printf, 2, 3)));
static bool grep_begin(seqx::Ctx& c, const char* f, ...) {
    char b[seqx::DESC]; va_list ap; va_start(ap, f); vsnprintf(b, sizeof b, f, ap); va_end(ap);
    if (c.shard == 0 && strstr(b, g_grep)) printf("GREP index=%llu %s\n", (unsigned long long)c.counter, b);
    return c.begin("%s", b);
}
#define BEGIN(...) (__builtin_expect(g_grep != nullptr, 0) ? grep_begin(c, __VA_ARGS__) : c.begin(__VA_ARGS__))

// SIGSEGV containment: a wild pointer dereference inside the library must become a reported violation of this
// case, not the death of the shard (thousands of cases would exhaust the restart budget of seqx).
static sigjmp_buf g_jb;
static volatile sig_atomic_t g_guard = 0;
static void* volatile g_fault = nullptr;
static struct sigaction g_old_segv, g_old_bus;
static void on_fault(int sig, siginfo_t* si, void* uc) {
    if (g_guard) { g_guard = 0; g_fault = si ? si->si_addr : nullptr; siglongjmp(g_jb, 1); }
    struct sigaction* o = sig == SIGSEGV ? &g_old_segv : &g_old_bus;
    if ((o->sa_flags & SA_SIGINFO) && o->sa_sigaction) { o->sa_sigaction(sig, si, uc); return; }
    signal(sig, SIG_DFL);
}
static void install_fault_handler() {
    static bool done = false; if (done) return; done = true;
    struct sigaction sa; memset(&sa, 0, sizeof sa); sa.sa_sigaction = on_fault; sa.sa_flags = SA_SIGINFO | SA_NODEFER; sigemptyset(&sa.sa_mask);
    sigaction(SIGSEGV, &sa, &g_old_segv); sigaction(SIGBUS, &sa, &g_old_bus);
}

// ------------------------------------------------------------------------------------------------ field walker
// Own traversal of the declared fields (PROCESS_FIELDS is the library's reflection mechanism; the overloads below
// are the harness's, not ArchiveBase's). pass 0: declaration order. pass 1/2: the order in which the wire format
// consumes the front stream (top-level aligned_* fields first, then everything else; nested messages in one go).
enum Kind { K_BUF, K_ABUF, K_STR, K_ARR, K_ARRMSG, K_FIXBUF, K_IDX, K_BASE };

template<class V>
struct Walk {
    V& v; std::string path; int ord = 0, depth = 0, pass = 0;
    Walk(V& v_, const std::string& p) : v(v_), path(p) {}
    std::string next() { char b[16]; snprintf(b, sizeof b, ".f%d", ord++); return path + b; }
    bool want(bool aligned_kind) const { if (depth > 0 || pass == 0) return true; return pass == 1 ? aligned_kind : !aligned_kind; }

    void process_field(rpc::buffer& x)              { auto p = next(); if (want(false)) v.buf(p, x, K_BUF, 1); }
    void process_field(rpc::aligned_buffer& x)      { auto p = next(); if (want(true)) v.buf(p, x, K_ABUF, 1); }
    void process_field(rstring& x)                  { auto p = next(); if (want(false)) v.buf(p, x, K_STR, 1); }
    void process_field(rpc::iovec_array& x)         { auto p = next(); if (want(false)) v.iov(p, x, false); }
    void process_field(rpc::aligned_iovec_array& x) { auto p = next(); if (want(true)) v.iov(p, x, true); }
    template<class T> void process_field(rpc::fixed_buffer<T>& x) { auto p = next(); if (want(false)) v.buf(p, x, K_FIXBUF, sizeof(T)); }
    template<class T> void process_field(rpc::array<T>& x) { auto p = next(); if (want(false)) arr(p, x, std::is_base_of<rpc::Message, T>()); }
    template<class K, class VV> void process_field(rpc::sorted_map<K, VV>& x) { auto p = next(); if (want(false)) v.map(p, x); }
    template<class T> void process_field(T& x) { auto p = next(); if (want(false)) other(p, x, std::is_base_of<rpc::Message, T>()); }

    template<class T> void arr(const std::string& p, rpc::array<T>& x, std::false_type) { v.buf(p, x, K_ARR, sizeof(T)); }
    template<class T> void arr(const std::string& p, rpc::array<T>& x, std::true_type) {
        size_t n = x._len / sizeof(T);
        char* base = v.buf(p, x, K_ARRMSG, sizeof(T));
        if (!base) return;
        for (size_t i = 0; i < n; i++) { char b[24]; snprintf(b, sizeof b, "[%zu]", i); nested(p + b, *(T*)(base + i * sizeof(T))); }
    }
    template<class T> void other(const std::string& p, T& x, std::false_type) { v.fixed(p, (void*)&x, sizeof(T)); }
    template<class T> void other(const std::string& p, T& x, std::true_type) { nested(p, x); }
    template<class T> void nested(const std::string& p, T& x) {
        std::string sp = path; int so = ord; path = p; ord = 0; depth++;
        x.process_fields(*this);
        depth--; ord = so; path = sp;
    }
    template<class T> void top(T& x, bool wire_order) {
        if (!wire_order) { pass = 0; ord = 0; x.process_fields(*this); return; }
        pass = 1; ord = 0; x.process_fields(*this);
        pass = 2; ord = 0; x.process_fields(*this);
        pass = 0;
    }
};

// ------------------------------------------------------------------------------------------------ reference model of a map
struct MapModel {
    struct E { std::string key; int32_t a; std::string b; char c; };   // key without the trailing NUL; b = wire bytes (with NUL) or empty
    std::vector<E> sorted;
    std::vector<std::string> probes;
};

// ------------------------------------------------------------------------------------------------ canonical value list (+ bounds oracle)
struct Item { std::string path, bytes; };
struct Problem { const char* sig; std::string detail; };

static std::string fmt(const char* f, ...) __attribute__((format(printf, 1, 2)));
static std::string fmt(const char* f, ...) { char b[512]; va_list ap; va_start(ap, f); vsnprintf(b, sizeof b, f, ap); va_end(ap); return b; }

struct Canon {
    const Regions* rg;        // null: trusted (sender) object, no bounds checks
    const MapModel* model;    // non-null: sender side, map contents are taken from the model
    std::vector<Item> items; std::vector<Problem> probs; uint64_t sum = 0;
    Canon(const Regions* r, const MapModel* m) : rg(r), model(m) {}

    void problem(const char* sig, const std::string& d) { if (probs.size() < 8) probs.push_back({sig, d}); }
    bool read(const std::string& path, const void* p, size_t n, std::string* out) {
        if (rg && !rg->in(p, n)) {
            problem("field-outside-input", fmt("%s: [%p,+%zu) is not inside the supplied blocks nor an iovector-owned copy", path.c_str(), p, n));
            if (out) out->append("<outside>");
            return false;
        }
        auto b = (const unsigned char*)p; for (size_t i = 0; i < n; i++) sum += b[i];
        if (out) out->append((const char*)p, n);
        return true;
    }
    void fixed(const std::string& path, void* p, size_t n) { items.push_back({path, std::string((char*)p, n)}); }
    char* buf(const std::string& path, rpc::buffer& x, Kind k, size_t elem) {
        size_t n = x._len;
        if (k == K_ARR || k == K_ARRMSG) n = n / elem * elem;        // what array<T>::size() exposes
        Item it{path, ""};
        bool ok = read(path, x._ptr, n, &it.bytes);
        if (k == K_ARRMSG) it.bytes = fmt("%zu elements", n / elem);   // raw bytes hold pointers the deserializer rewrites; elements are compared field by field
        items.push_back(std::move(it));
        return ok ? (char*)x._ptr : nullptr;
    }
    void iov(const std::string& path, rpc::iovec_array& x, bool) {
        size_t n = x._len / sizeof(iovec);
        Item it{path, ""};
        if (rg && !rg->in(x._ptr, n * sizeof(iovec))) {
            problem("field-outside-input", fmt("%s: iovec[%zu] at %p is not inside iovector-owned storage", path.c_str(), n, x._ptr));
            it.bytes = "<outside>";
        } else {
            for (size_t i = 0; i < n; i++) {
                iovec v; memcpy(&v, (char*)x._ptr + i * sizeof(iovec), sizeof v);
                read(path + fmt("[%zu]", i), v.iov_base, v.iov_len, &it.bytes);
            }
        }
        items.push_back(std::move(it));
        items.push_back({path + ".summed_size", std::string((char*)&x.summed_size, 8)});
    }

    // ---- sorted_map
    void emit_entry(const std::string& path, size_t i, const std::string& keybytes) { items.push_back({path + fmt("[%zu].key", i), keybytes}); }
    void map(const std::string& path, SMap& m) {
        if (model) {      // sender: what was put in, in key order
            items.push_back({path + ".n", fmt("%zu", model->sorted.size())});
            for (size_t i = 0; i < model->sorted.size(); i++) {
                auto& e = model->sorted[i];
                emit_entry(path, i, e.key + std::string(1, '\0'));
                std::string vp = path + fmt("[%zu].val", i);
                items.push_back({vp + ".f0", std::string((char*)&e.a, 4)});
                items.push_back({vp + ".f1", e.b});
                items.push_back({vp + ".f2", std::string(1, e.c)});
            }
            for (auto& pk : model->probes) {
                size_t j = 0; while (j < model->sorted.size() && model->sorted[j].key < pk) j++;
                items.push_back({path + ".find(" + pk + ")", j == model->sorted.size() ? std::string("<end>") : model->sorted[j].key + std::string(1, '\0') + "|" + model->sorted[j].b});
            }
            return;
        }
        // receiver. First look at the raw index without dereferencing anything it points to.
        typedef SMap::ValueType Ent;
        size_t n = m.index._len / sizeof(Ent);
        if (!read(path + ".index", m.index._ptr, n * sizeof(Ent), nullptr)) return;
        if (!read(path + ".base_buffer", m.base_buffer._ptr, m.base_buffer._len, nullptr)) return;
        bool bad = false; size_t maxprobe = 0;
        std::vector<std::string> probes;
        if (rg_probes) probes = *rg_probes; else { probes.push_back("aa"); probes.push_back("zz"); }
        for (auto& pk : probes) maxprobe = std::max(maxprobe, pk.size());
        for (size_t i = 0; i < n; i++) {
            Ent e; memcpy((void*)&e, (char*)m.index._ptr + i * sizeof(Ent), sizeof e);
            const rpc::slice* sl[2] = {&e.first, &e.second};
            for (int k = 0; k < 2; k++) {
                // Entries are defined relative to base_buffer. Iterator::deserialize()/find() dereference slice|base_buffer, and the
                // in-place deserialization of a value WRITES pointers into its slice, so a slice that leaves base_buffer is
                // not a field "inside" the message even when it happens to stay inside the supplied blocks.
                uint64_t off = (uint64_t)sl[k]->offset, len = sl[k]->length, bl = m.base_buffer._len;
                // what counts is what the LIBRARY resolves the slice to (slice|base_buffer): an out-of-range slice that it
                // resolves to an empty string denotes nothing and is dereferenced nowhere
                rstring s = *sl[k] | m.base_buffer;
                bool resolved_inside = s._len == 0 || ((char*)s.addr() >= (char*)m.base_buffer._ptr && (char*)s.addr() + s._len <= (char*)m.base_buffer._ptr + bl);
                if (!resolved_inside) {
                    problem("map-slice-outside-base-buffer", fmt("%s.index[%zu].%s = {offset=%llu,length=%llu} but base_buffer is %llu bytes: the library dereferences slice|base_buffer = [%p,+%zu) (%s the supplied bytes); slice::anchor checks bounds with assert only",
                                                                 path.c_str(), i, k ? "value" : "key", (unsigned long long)off, (unsigned long long)len, (unsigned long long)bl, s.addr(), s._len,
                                                                 rg && rg->in(s.addr(), s._len) ? "outside base_buffer but inside" : "outside"));
                    bad = true;
                }
            }
            if (!bad) {
                // the bytes sorted_map::find() compares for this entry: string::operator< -> sv() = {c_str(), size()-1}, compared over min(size) bytes
                rstring ks = e.first | m.base_buffer;
                auto sv = ks.sv();
                size_t cmp = std::min(sv.size(), maxprobe);
                if (rg && !rg->in(sv.data(), cmp)) {
                    problem("map-find-reads-outside-input", fmt("%s.index[%zu].key = {offset=%llu,length=%llu}: find() compares string::sv() = {%p, %zu} (size()-1 of a zero-length key) against the probe key, i.e. reads [%p,+%zu), which is not inside the supplied bytes",
                                                                path.c_str(), i, (unsigned long long)e.first.offset, (unsigned long long)e.first.length, sv.data(), sv.size(), sv.data(), cmp));
                    bad = true;
                }
            }
        }
        if (bad && !g_live) return;
        // iterate with the library's iterator, look up present and absent keys
        items.push_back({path + ".n", fmt("%zu", n)});
        size_t i = 0;
        for (auto it = m.begin(); it != m.end(); ++it, ++i) {
            if (i > n) { problem("map-iteration-endless", "more entries than the index holds"); break; }
            auto& pr = *it;
            Item k{path + fmt("[%zu].key", i), ""};
            read(k.path, pr.first.addr(), pr.first._len, &k.bytes);
            items.push_back(std::move(k));
            Walk<Canon> w(*this, path + fmt("[%zu].val", i));
            w.top(pr.second, false);
        }
        for (auto& pk : probes) {
            rstring ps; ps.assign((const void*)pk.c_str(), pk.size() + 1);
            auto it = m.find(ps);
            Item f{path + ".find(" + pk + ")", ""};
            if (it == m.end()) f.bytes = "<end>";
            else {
                auto& pr = *it;
                read(f.path + ".key", pr.first.addr(), pr.first._len, &f.bytes);
                f.bytes += "|";
                read(f.path + ".val.b", pr.second.b.addr(), pr.second.b._len, &f.bytes);
            }
            items.push_back(std::move(f));
        }
    }
    const std::vector<std::string>* rg_probes = nullptr;
};

// ------------------------------------------------------------------------------------------------ layout of a valid image
enum { FC_PTR, FC_LEN, FC_SUMMED, FC_SOFF, FC_SLEN };
static const char* FCN[] = {"ptr", "len", "summed_size", "slice.offset", "slice.length"};
struct Field { size_t off; uint64_t orig, rem; std::string name; int klass; };
struct PairMut { size_t off_a; uint64_t va; size_t off_b; uint64_t vb; std::string name; int sub; };   // two fields of one slice overwritten together

struct Locator {          // reference parser of a VALID image: where every length/offset/pointer field and every payload sits
    char* img; size_t pos, end;
    std::vector<Field> fields; std::vector<PairMut> pairs;
    std::vector<std::pair<size_t, size_t>> payloads;     // (offset,len) of every contiguous payload
    void add_pairs(rpc::slice* sl, const std::string& name, uint64_t bl) {
        size_t oo = (char*)&sl->offset - img, ol = (char*)&sl->length - img;
        pairs.push_back({oo, bl, ol, 0, name + " <- {offset=base_len,length=0}", 0});
        pairs.push_back({oo, bl, ol, 1, name + " <- {offset=base_len,length=1}", 1});
        if (bl) pairs.push_back({oo, bl - 1, ol, 0, name + " <- {offset=base_len-1,length=0}", 2});
        if (bl) pairs.push_back({oo, bl - 1, ol, 1, name + " <- {offset=base_len-1,length=1}", 3});
        pairs.push_back({oo, 0, ol, 0, name + " <- {offset=0,length=0}", 4});
    }
    void add(void* addr, const std::string& name, int klass, uint64_t rem) {
        uint64_t o; memcpy(&o, addr, 8);
        fields.push_back({(size_t)((char*)addr - img), o, rem, name, klass});
    }
    void fixed(const std::string&, void*, size_t) {}
    char* buf(const std::string& path, rpc::buffer& x, Kind, size_t) {
        uint64_t len = x._len;
        add(&x._ptr, path + "._ptr", FC_PTR, 0);
        add(&x._len, path + "._len", FC_LEN, end - pos);
        char* p = img + pos;
        if (len) payloads.push_back({pos, (size_t)len});
        pos += len;
        return p;
    }
    void iov(const std::string& path, rpc::iovec_array& x, bool) {
        add(&x._ptr, path + "._ptr", FC_PTR, 0);
        add(&x._len, path + "._len", FC_LEN, end - pos);
        add(&x.summed_size, path + ".summed_size", FC_SUMMED, end - pos);
        if (x.summed_size) payloads.push_back({pos, x.summed_size});
        pos += x.summed_size;
    }
    void map(const std::string& path, SMap& m) {
        typedef SMap::ValueType Ent;
        size_t n = m.index._len / sizeof(Ent);
        char* ip = buf(path + ".index", m.index, K_IDX, sizeof(Ent));
        char* bp = buf(path + ".base", m.base_buffer, K_BASE, 1);
        uint64_t bl = m.base_buffer._len;
        for (size_t i = 0; i < n; i++) {
            Ent* e = (Ent*)(ip + i * sizeof(Ent));
            add(&e->first.offset, path + fmt(".index[%zu].key.offset", i), FC_SOFF, bl);
            add(&e->first.length, path + fmt(".index[%zu].key.length", i), FC_SLEN, bl - e->first.offset);
            add(&e->second.offset, path + fmt(".index[%zu].value.offset", i), FC_SOFF, bl);
            add(&e->second.length, path + fmt(".index[%zu].value.length", i), FC_SLEN, bl - e->second.offset);
            add_pairs(&e->first, path + fmt(".index[%zu].key", i), bl);
            add_pairs(&e->second, path + fmt(".index[%zu].value", i), bl);
        }
        for (size_t i = 0; i < n; i++) {
            Ent* e = (Ent*)(ip + i * sizeof(Ent));
            size_t vo = e->second.offset, vl = e->second.length;
            if (vl < sizeof(MapVal)) continue;
            size_t sp = pos, se = end;
            pos = (bp - img) + vo; end = pos + vl - sizeof(MapVal);
            Walk<Locator> w(*this, path + fmt(".value[%zu]", i));
            w.top(*(MapVal*)(img + end), true);
            if (pos != end) ok = false;
            pos = sp; end = se;
        }
    }
    bool ok = true;
};

// ------------------------------------------------------------------------------------------------ sender side
// All sender-side storage (message, field data, map values, iovec[]) comes from one arena mapped at a fixed address, so
// that the pointer values embedded in the serialized image -- and therefore every hostile image derived from it and
// every outcome -- are the same in every shard, every run and every replay.
#ifndef MAP_FIXED_NOREPLACE
#define MAP_FIXED_NOREPLACE 0x100000
#endif
struct Arena {
    char* base = nullptr; size_t cap = 8u << 20, used = 0;
    void init() {
        if (base) return;
        void* p = mmap((void*)0x200000000000ull, cap, PROT_READ | PROT_WRITE, MAP_PRIVATE | MAP_ANONYMOUS | MAP_FIXED_NOREPLACE, -1, 0);
        if (p == MAP_FAILED || p != (void*)0x200000000000ull) { if (p != MAP_FAILED) munmap(p, cap); p = mmap(nullptr, cap, PROT_READ | PROT_WRITE, MAP_PRIVATE | MAP_ANONYMOUS, -1, 0); }
        base = (char*)p;
    }
    void reset() { init(); memset(base, 0, used); used = 0; }
    char* get(size_t n) { n = (n + 15) & ~(size_t)15; if (n == 0) n = 16; if (used + n > cap) { fprintf(stderr, "arena exhausted\n"); abort(); } char* p = base + used; used += n; return p; }
};
static Arena g_arena;

struct Store {
    Store() { g_arena.reset(); }
    char* raw(size_t n) { return g_arena.get(n); }       // zero-filled
    char* bytes(size_t n, int seed) {          // position- and field-dependent printable bytes
        if (n == 0) return nullptr;
        char* p = raw(n);
        for (size_t i = 0; i < n; i++) p[i] = (char)(0x21 + (seed * 29 + i * 13) % 0x5e);
        return p;
    }
    void str(rstring& s, size_t n, int seed) {  // n = wire length including the NUL; 0 = default-constructed string
        if (n == 0) { s.assign((const void*)nullptr, 0); return; }
        char* p = bytes(n, seed); p[n - 1] = 0;
        s.assign((const void*)p, n);
    }
    std::vector<std::unique_ptr<SMapFactory>> factories;
};

struct Shape { std::vector<int> p; std::string desc; };

static const std::vector<std::vector<int>> IOVSHAPES = {{}, {1}, {9}, {2, 7}, {8, 0, 1}, {1, 2, 8}};
static std::string shape_str(const std::vector<int>& s) { std::string r = "["; for (size_t i = 0; i < s.size(); i++) r += fmt("%s%d", i ? "+" : "", s[i]); return r + "]"; }
static void make_iov(Store& st, rpc::iovec_array& a, const std::vector<int>& s, int seed) {
    if (s.empty()) { a.assign(nullptr, 0); return; }
    iovec* v = (iovec*)st.raw(sizeof(iovec) * s.size());
    for (size_t i = 0; i < s.size(); i++) v[i] = {st.bytes(s[i], seed + (int)i), (size_t)s[i]};
    a.assign(v, (int)s.size());
}

struct MapEnt { const char* key; int blen; };
static const std::vector<std::vector<MapEnt>> MAPSHAPES = {
    {}, {{"a", 1}}, {{"", 0}}, {{"kkkkkkk", 9}}, {{"b", 2}, {"a", 7}}, {{"abcdefgh", 8}, {"abcdefg", 0}},
    {{"c", 1}, {"a", 8}, {"b", 2}}, {{"b", 0}, {"", 9}, {"a", 1}}};
static std::string mapshape_str(const std::vector<MapEnt>& s) { std::string r = "["; for (size_t i = 0; i < s.size(); i++) r += fmt("%s'%s':%d", i ? "," : "", s[i].key, s[i].blen); return r + "]"; }

static const std::vector<std::vector<int>> AISHAPES = {{}, {0}, {1}, {8}, {2, 7}, {9, 0}, {1, 8, 2}};

template<class T> static void set_fixed(T& m, Store&, const Shape&, MapModel&) { m.a = 0x11223344; m.d = 2.5; m.c = 'Z'; }
template<class T> static void set_basic(T& m, Store& st, const Shape& s, MapModel&) {
    m.a = 0x11223344; m.b = 0x0102030405060708ull; m.c = 'Z';
    m.buf.assign(st.bytes(s.p[0], 1), s.p[0]);
    st.str(m.str, s.p[1], 2);
    m.arr.assign((int32_t*)st.bytes(4 * s.p[2], 3), s.p[2]);
}
template<class T> static void set_aligned(T& m, Store& st, const Shape& s, MapModel&) {
    m.x = 0x51525354; m.y = 0x7172;
    m.b1.assign(st.bytes(s.p[0], 1), s.p[0]);
    m.ab.assign(st.bytes(s.p[1], 2), s.p[1]);
    make_iov(st, m.iv, IOVSHAPES[s.p[2]], 10);
    make_iov(st, m.aiv, IOVSHAPES[s.p[3]], 20);
}
template<class T, class IN> static void set_nested(T& m, Store& st, const Shape& s, MapModel&) {
    m.x = 0x61626364;
    m.in1.tag = 77; st.str(m.in1.s, s.p[0], 1);
    auto& ai = AISHAPES[s.p[1]];
    if (!ai.empty()) {
        IN* a = (IN*)st.raw(sizeof(IN) * ai.size());
        for (size_t i = 0; i < ai.size(); i++) { new (&a[i]) IN; a[i].tag = 100 + (int)i; st.str(a[i].s, ai[i], 30 + (int)i); }
        m.ai.assign(a, ai.size());
    }
    if (s.p[2]) { Pod* pod = (Pod*)st.raw(sizeof(Pod)); pod->u = 0x1122334455667788ll; pod->v = 9; pod->w = -3; m.fb.assign(pod); }
    st.str(m.tail, s.p[3], 5);
}
template<class T> static void set_map(T& m, Store& st, const Shape& s, MapModel& model) {
    m.code = 999;
    m.buf.assign(st.bytes(s.p[0], 1), s.p[0]);
    st.str(m.tail, s.p[2], 5);
    auto& ms = MAPSHAPES[s.p[1]];
    st.factories.emplace_back(new SMapFactory);
    auto& fac = *st.factories.back();
    for (size_t i = 0; i < ms.size(); i++) {
        MapVal& v = *new (st.raw(sizeof(MapVal))) MapVal;
        v.a = 1000 + (int)i; v.c = (char)('p' + i); st.str(v.b, ms[i].blen, 40 + (int)i);
        size_t kl = strlen(ms[i].key) + 1;
        char* kp = st.raw(kl); memcpy(kp, ms[i].key, kl);
        rstring k; k.assign((const void*)kp, kl);
        fac.append(k, v);
        model.sorted.push_back({ms[i].key, v.a, std::string((char*)v.b.addr(), v.b._len), v.c});
    }
    fac.assign_to(&m.map);
    if (m.map.index._len) {      // move index and flat buffer into the arena (deterministic addresses in the image)
        char* ic = st.raw(m.map.index._len); memcpy(ic, m.map.index._ptr, m.map.index._len); m.map.index._ptr = ic;
        char* bc = st.raw(m.map.base_buffer._len); memcpy(bc, m.map.base_buffer._ptr, m.map.base_buffer._len); m.map.base_buffer._ptr = bc;
    }
    std::sort(model.sorted.begin(), model.sorted.end(), [](const MapModel::E& x, const MapModel::E& y) { return x.key < y.key; });
    if (!ms.empty()) model.probes.push_back(ms[0].key);
    model.probes.push_back("aa"); model.probes.push_back("zz");
}

// ------------------------------------------------------------------------------------------------ one execution of the real deserializer
template<class T> __attribute__((noinline)) static int guarded_deserialize(iovector* iov, T** out) {
    g_guard = 1;
    if (sigsetjmp(g_jb, 0)) return 1;
    rpc::DeserializerIOV des;
    *out = des.deserialize<T>(iov);
    g_guard = 0;
    return 0;
}
template<class T> __attribute__((noinline)) static int guarded_read(Canon* cn, T* t) {
    g_guard = 1;
    if (sigsetjmp(g_jb, 0)) return 1;
    Walk<Canon> w(*cn, "");
    w.top(*t, false);
    g_guard = 0;
    return 0;
}

struct Outcome {
    int result = 0;            // 0 null, 1 message, 2 crashed inside deserialize, 3 crashed while reading fields
    size_t nalloc = 0; bool body_in = true;
    std::vector<Item> items; std::vector<Problem> probs; void* fault = nullptr;
};

template<class T>
static void run_case(const std::string& bytes, const int* cuts, int ncuts, const std::vector<std::string>* probes, Outcome& o) {
    struct Piece { char* p; size_t n; } pc[4]; int np = 0; size_t prev = 0, n = bytes.size();
    for (int i = 0; i <= ncuts; i++) {
        size_t e = i < ncuts ? (size_t)cuts[i] : n, len = e - prev;
        char* p = (char*)malloc(len);                     // exact size: ASan red zones on both sides
        if (len) memcpy(p, bytes.data() + prev, len);
        pc[np++] = {p, len}; prev = e;
    }
    RecAlloc rec;
    {
        IOVector iov(IOAlloc(IOAlloc::Allocator(&rec, &RecAlloc::alloc), IOAlloc::Deallocator(&rec, &RecAlloc::dealloc)));
        for (int i = 0; i < np; i++) if (pc[i].n) iov.push_back(pc[i].p, pc[i].n);
        T* t = nullptr;
        if (guarded_deserialize<T>(&iov, &t)) { o.result = 2; o.fault = g_fault; }
        else if (t) {
            o.result = 1;
            Regions rg;
            for (int i = 0; i < np; i++) rg.add(pc[i].p, pc[i].n);
            for (auto& b : rec.blocks) rg.add(b.p, b.n);
            o.body_in = rg.in(t, sizeof(T));
            if (o.body_in) {
                Canon cn(&rg, nullptr); cn.rg_probes = probes;
                if (guarded_read<T>(&cn, t)) { o.result = 3; o.fault = g_fault; }
                o.items.swap(cn.items); o.probs.swap(cn.probs);
            }
        }
        o.nalloc = rec.blocks.size();
    }
    for (int i = 0; i < np; i++) free(pc[i].p);
}

// ------------------------------------------------------------------------------------------------ enumeration
static const uint64_t V31 = 1ull << 31, V63 = 1ull << 63, VMAX = ~0ull;
static const char* VNAME[] = {"0", "1", "len-1", "len", "len+1", "remaining", "remaining+1", "2^31", "2^63", "2^64-1"};
struct Val { uint64_t v; int idx; };
static std::vector<Val> values_for(const Field& f) {
    std::vector<Val> r;
    auto add = [&](uint64_t v, int idx) { if (v == f.orig) return; for (auto& x : r) if (x.v == v) return; r.push_back({v, idx}); };
    if (f.klass == FC_PTR) { add(0, 0); add(1, 1); add(VMAX, 9); return r; }
    add(0, 0); add(1, 1); add(f.orig - 1, 2); add(f.orig + 1, 4); add(f.rem, 5); add(f.rem + 1, 6); add(V31, 7); add(V63, 8); add(VMAX, 9);
    return r;
}

struct Tier {
    std::vector<int> lens;     // field lengths
    int a_pieces;              // part A: up to this many pieces, every cut
    int b_pieces;              // part B: 1..b_pieces pieces with every cut
    bool b3_boundary;          // part B: additionally 3 pieces with both cuts taken from payload/body boundaries
    bool words;                // part B: 8-byte word overwrite at every offset
    std::vector<int> flipmasks;
    bool flip_more_cuts;       // flips: also cut right after the flipped byte / isolate it in its own piece
    std::vector<int> lens2;    // reduced length set for the types with many dimensions
};

enum { KIND_A = 0, KIND_TAIL, KIND_HEAD, KIND_FIELD, KIND_FLIP, KIND_WORD, KIND_SELF, KIND_PAIR };

template<class T>
struct TypeRun {
    seqx::Ctx& c; const Tier& tier; int type_id; const char* tname; bool checked;
    // per shape
    std::string img, sdesc; size_t L = 0, B = 0;
    std::vector<Item> expect; std::vector<Field> fields; std::vector<PairMut> pairs; std::vector<std::pair<size_t, size_t>> payloads;
    std::vector<std::string> probes;

    bool straddle(size_t lo, size_t len, const int* cuts, int nc) const { for (int i = 0; i < nc; i++) if ((size_t)cuts[i] > lo && (size_t)cuts[i] < lo + len) return true; return false; }

    void judge(int kind, int sub, int rel, const std::string& bytes, bool altered, const int* cuts, int nc) {
        Outcome o;
        run_case<T>(bytes, cuts, nc, probes.empty() ? nullptr : &probes, o);
        bool body_str = bytes.size() >= sizeof(T) && straddle(bytes.size() - sizeof(T), sizeof(T), cuts, nc);
        bool pay_str = false; for (auto& p : payloads) if (straddle(p.first, p.second, cuts, nc)) pay_str = true;
        uint64_t h = seqx::mix(seqx::mix(seqx::mix(type_id, kind), sub), rel);
        h = seqx::mix(h, o.result); h = seqx::mix(h, nc); h = seqx::mix(h, std::min<size_t>(o.nalloc, 3));
        h = seqx::mix(h, body_str * 2 + pay_str); h = seqx::mix(h, o.probs.empty() ? 0 : seqx::fnv(o.probs[0].sig, strlen(o.probs[0].sig)));
        c.cls(h);
        if (g_faillog) {     // debug aid: one line per case with a crash or an oracle complaint about the returned message
            const char* sg = o.result == 2 ? "crash-in-deserialize" : o.result == 3 ? "crash-reading-fields" : (o.result && !o.body_in) ? "body-outside-input" : !o.probs.empty() ? o.probs[0].sig : nullptr;
            if (sg) fprintf(g_faillog, "%s\t%p\t%s\n", sg, o.fault, c.sh->cur);
        }
        bool forged = false;
        if (o.result == 2) { c.fail("crash-in-deserialize", "SIGSEGV/SIGBUS at address %p inside DeserializerIOV::deserialize (contained by the harness)", o.fault); return; }
        if (o.result == 3) c.fail("crash-reading-fields", "SIGSEGV/SIGBUS at address %p while reading the fields of the returned message", o.fault);
        if (kind == KIND_A) {
            if (o.result == 0) { c.fail("roundtrip-rejected", "deserialize() returned null for a valid image"); return; }
        } else if (o.result != 0 && checked && altered) {
            // What a 32-bit checksum owes us: an alteration that leaves the stored checksum alone (or touches nothing else) must be
            // rejected. Overwriting the stored checksum TOGETHER with other bytes is a forgery attempt that no CRC can exclude
            // (e.g. an all-zero body carries the valid checksum 0 because Crc32Hasher starts from 0): not held against the library.
            // The body is taken from the back; m_checksum is its first 4 bytes (CheckedMessage<> is the first base, sizeof == 4).
            const char* rb = bytes.data() + bytes.size() - sizeof(T);
            bool cks_changed = memcmp(rb, img.data() + B, 4) != 0;
            bool rest_same = memcmp(rb + 4, img.data() + B + 4, sizeof(T) - 4) == 0;
            bool payload_same = bytes.size() == L && memcmp(bytes.data(), img.data(), B) == 0;
            if (cks_changed && !(rest_same && payload_same)) { forged = true; c.cls(seqx::mix(h, 0xf0)); }
            else if (!cks_changed && rest_same) c.fail("checked-message-payload-alteration-accepted", "a CheckedMessage whose field payload bytes (in front of the body) differ from what was sent was accepted");
            else c.fail("checked-message-body-alteration-accepted", "a CheckedMessage whose body bytes differ from what was sent (stored checksum %s) was accepted", cks_changed ? "altered, nothing else" : "untouched");
        }
        if (o.result == 0) return;
        if (!o.body_in) { c.fail("body-outside-input", "returned message body is not inside the supplied blocks nor an iovector-owned copy"); return; }
        for (auto& p : o.probs) c.fail(p.sig, "%s", p.detail.c_str());
        if (kind == KIND_A && o.result == 1 && o.probs.empty()) {
            if (o.items.size() != expect.size()) { c.fail("roundtrip-mismatch", "%zu items after the round trip, %zu in the original", o.items.size(), expect.size()); return; }
            for (size_t i = 0; i < expect.size(); i++)
                if (o.items[i].path != expect[i].path || o.items[i].bytes != expect[i].bytes) {
                    c.fail("roundtrip-mismatch", "field %s (got path %s): %zu bytes after the round trip vs %zu bytes sent, contents %s", expect[i].path.c_str(), o.items[i].path.c_str(),
                           o.items[i].bytes.size(), expect[i].bytes.size(), o.items[i].bytes.size() == expect[i].bytes.size() ? "differ" : "n/a");
                    return;
                }
        }
    }

    // fragmentations of a byte string of length n
    template<class F> void frags(size_t n, int maxp, F f) {
        int cuts[2] = {0, 0};
        f(cuts, 0);
        if (maxp >= 2) for (size_t c1 = 1; c1 < n; c1++) { cuts[0] = (int)c1; f(cuts, 1); }
        if (maxp >= 3) for (size_t c1 = 1; c1 + 1 < n; c1++) for (size_t c2 = c1 + 1; c2 < n; c2++) { cuts[0] = (int)c1; cuts[1] = (int)c2; f(cuts, 2); }
    }
    // 3 pieces, both cuts from the boundary set (shifted for head truncation, clipped to the image)
    template<class F> void frags3b(size_t n, long shift, F f) {
        std::vector<int> s;
        auto add = [&](long x) { x -= shift; if (x >= 1 && x < (long)n) s.push_back((int)x); };
        for (auto& p : payloads) { add(p.first); add(p.first + 1); add(p.first + p.second - 1); add(p.first + p.second); }
        add((long)B - 1); add((long)B); add((long)B + 1); add((long)L - 1);
        std::sort(s.begin(), s.end()); s.erase(std::unique(s.begin(), s.end()), s.end());
        int cuts[2];
        for (size_t i = 0; i < s.size(); i++) for (size_t j = i + 1; j < s.size(); j++) { cuts[0] = s[i]; cuts[1] = s[j]; f(cuts, 2); }
    }
    template<class F> void bfrags(size_t n, long shift, F f) { frags(n, tier.b_pieces, f); if (tier.b3_boundary) frags3b(n, shift, f); }

    template<class Setter> void shape(const Shape& sh, Setter set) {
        // ---- build the sender's message, serialize, flatten (cheap; done by every shard)
        Store st; MapModel model;
        T* m = new (st.raw(sizeof(T))) T;
        set(*m, st, sh, model);
        rpc::SerializerIOV ser;
        ser.serialize(*m);
        img.clear();
        for (auto& v : ser.iov) img.append((const char*)v.iov_base, v.iov_len);
        L = img.size(); B = L - sizeof(T); sdesc = sh.desc; probes = model.probes;
        Canon sc(nullptr, &model); { Walk<Canon> w(sc, ""); w.top(*m, false); }
        expect.swap(sc.items);
        std::vector<char> copy(img.begin(), img.end());
        Locator loc{copy.data(), 0, B};
        { Walk<Locator> w(loc, ""); w.top(*(T*)(copy.data() + B), true); }
        fields.swap(loc.fields); payloads.swap(loc.payloads); pairs.swap(loc.pairs);
        const char* TN = tname; const char* SD = sdesc.c_str();

        if (BEGIN("S %s{%s} L=%zu body@%zu layout self-check", TN, SD, L, B)) {
            c.cls(seqx::mix(type_id, KIND_SELF));
            if (ser.iovfull) c.fail("harness-selfcheck", "serializer iovector full");
            if (L < sizeof(T) || loc.pos != loc.end || !loc.ok) c.fail("harness-selfcheck", "reference layout does not account for all bytes: pos=%zu end=%zu", loc.pos, loc.end);
        }
        // ---- (A) round trip under every fragmentation
        frags(L, tier.a_pieces, [&](const int* cuts, int nc) {
            if (!BEGIN("A %s{%s} L=%zu body@%zu pieces=%d cuts=%d,%d", TN, SD, L, B, nc + 1, cuts[0], cuts[1])) return;
            judge(KIND_A, 0, 0, img, false, cuts, nc);
        });
        // ---- (B) truncations
        for (size_t keep = 0; keep < L; keep++)
            frags(keep, tier.b_pieces, [&](const int* cuts, int nc) {
                if (!BEGIN("B %s{%s} L=%zu body@%zu keep-first=%zu pieces=%d cuts=%d,%d", TN, SD, L, B, keep, nc + 1, cuts[0], cuts[1])) return;
                judge(KIND_TAIL, 0, keep < sizeof(T) ? 0 : 1, img.substr(0, keep), true, cuts, nc);
            });
        for (size_t drop = 1; drop < L; drop++)
            frags(L - drop, tier.b_pieces, [&](const int* cuts, int nc) {
                if (!BEGIN("B %s{%s} L=%zu body@%zu drop-first=%zu pieces=%d cuts=%d,%d (cuts are offsets in the remaining bytes)", TN, SD, L, B, drop, nc + 1, cuts[0], cuts[1])) return;
                judge(KIND_HEAD, 0, drop < B ? 0 : drop == B ? 1 : 2, img.substr(drop), true, cuts, nc);
            });
        // ---- (B) every length / offset / pointer field <- boundary values
        for (auto& f : fields)
            for (auto& val : values_for(f))
                bfrags(L, 0, [&](const int* cuts, int nc) {
                    if (!BEGIN("B %s{%s} L=%zu body@%zu set %s@%zu (%s): %llu -> %llu (%s; remaining=%llu) pieces=%d cuts=%d,%d", TN, SD, L, B, f.name.c_str(), f.off, FCN[f.klass],
                                 (unsigned long long)f.orig, (unsigned long long)val.v, VNAME[val.idx], (unsigned long long)f.rem, nc + 1, cuts[0], cuts[1])) return;
                    std::string hb = img; memcpy(&hb[f.off], &val.v, 8);
                    judge(KIND_FIELD, f.klass * 16 + val.idx, val.v < f.rem ? 0 : val.v == f.rem ? 1 : 2, hb, true, cuts, nc);
                });
        // ---- (B) both fields of a sorted_map slice at once: zero-length / one-byte slices at the very end of base_buffer
        for (auto& pm : pairs)
            bfrags(L, 0, [&](const int* cuts, int nc) {
                if (!BEGIN("B %s{%s} L=%zu body@%zu set %s (words @%zu <- %llu, @%zu <- %llu) pieces=%d cuts=%d,%d", TN, SD, L, B, pm.name.c_str(), pm.off_a, (unsigned long long)pm.va, pm.off_b,
                           (unsigned long long)pm.vb, nc + 1, cuts[0], cuts[1])) return;
                std::string hb = img; memcpy(&hb[pm.off_a], &pm.va, 8); memcpy(&hb[pm.off_b], &pm.vb, 8);
                judge(KIND_PAIR, pm.sub, 0, hb, hb != img, cuts, nc);
            });
        // ---- (B) one-byte flips: a checked message must be rejected
        if (checked)
            for (size_t pos = 0; pos < L; pos++)
                for (int mask : tier.flipmasks) {
                    auto one = [&](const int* cuts, int nc) {
                        if (!BEGIN("B %s{%s} L=%zu body@%zu flip byte@%zu ^0x%02x pieces=%d cuts=%d,%d", TN, SD, L, B, pos, mask, nc + 1, cuts[0], cuts[1])) return;
                        std::string hb = img; hb[pos] ^= (char)mask;
                        judge(KIND_FLIP, mask, pos < B ? 0 : 1, hb, true, cuts, nc);
                    };
                    int cuts[2] = {0, 0}; one(cuts, 0);
                    if (B > 0 && B < L) { cuts[0] = (int)B; one(cuts, 1); }
                    if (pos > 0 && pos != B) { cuts[0] = (int)pos; one(cuts, 1); }
                    if (tier.flip_more_cuts) { if (pos + 1 < L && pos + 1 != B) { cuts[0] = (int)pos + 1; one(cuts, 1); } if (pos > 0 && pos + 1 < L) { cuts[0] = (int)pos; cuts[1] = (int)pos + 1; one(cuts, 2); } }
                }
        // ---- (B) an 8-byte word at every offset <- extreme values (finds length-like words the layout did not name)
        if (tier.words) {
            static const uint64_t WV[] = {0, 1, V31, V63, VMAX};
            for (size_t off = 0; off + 8 <= L; off++)
                for (uint64_t wv : WV) {
                    uint64_t cur; memcpy(&cur, &img[off], 8);
                    if (cur == wv) continue;
                    int cuts[2] = {0, 0};
                    for (int nc = 0; nc <= (B > 0 ? 1 : 0); nc++) {
                        cuts[0] = nc ? (int)B : 0;
                        if (!BEGIN("B %s{%s} L=%zu body@%zu word@%zu <- %llu pieces=%d cuts=%d,%d", TN, SD, L, B, off, (unsigned long long)wv, nc + 1, cuts[0], cuts[1])) continue;
                        std::string hb = img; memcpy(&hb[off], &wv, 8);
                        judge(KIND_WORD, (int)(wv & 3) + (wv >> 62) * 4, off < B ? 0 : 1, hb, true, cuts, nc);
                    }
                }
        }
    }
};

template<class T, class Setter>
static void explore(seqx::Ctx& c, const Tier& tier, int type_id, const char* tname, bool checked, const std::vector<Shape>& shapes, Setter set) {
    TypeRun<T> tr{c, tier, type_id, tname, checked};
    uint64_t before = c.counter, ih = 0;
    for (auto& sh : shapes) { if (c.stop && !g_count) return; tr.shape(sh, set); ih = seqx::fnv(tr.img.data(), tr.img.size(), ih ^ 1469598103934665603ull); }
    if (g_count && c.shard == 0) { FILE* f = fopen(g_count, "a"); if (f) { fprintf(f, "%-9s shapes=%zu cases=%llu images-hash=%016llx\n", tname, shapes.size(), (unsigned long long)(c.counter - before), (unsigned long long)ih); fclose(f); } }
}

static std::vector<Shape> cross(const std::vector<std::vector<int>>& dims, const std::vector<std::string>& names, const std::vector<std::vector<std::string>>& labels) {
    std::vector<Shape> r; std::vector<size_t> ix(dims.size(), 0);
    if (dims.empty()) { r.push_back({{}, ""}); return r; }
    for (;;) {
        Shape s;
        for (size_t d = 0; d < dims.size(); d++) { s.p.push_back(dims[d][ix[d]]); s.desc += (d ? "," : "") + names[d] + "=" + labels[d][ix[d]]; }
        r.push_back(s);
        size_t d = dims.size();
        while (d-- > 0) { if (++ix[d] < dims[d].size()) break; ix[d] = 0; if (d == 0) return r; }
    }
}
static std::vector<std::string> numlabels(const std::vector<int>& v) { std::vector<std::string> r; for (int x : v) r.push_back(fmt("%d", x)); return r; }

static void seqx_enumerate(seqx::Ctx& c, bool thorough) {
    install_fault_handler();
    g_live = getenv("C12_LIVE") && atoi(getenv("C12_LIVE"));
    g_grep = getenv("C12_GREP");
    if (getenv("C12_FAILLOG") && !g_faillog) g_faillog = fopen(fmt("%s.%d", getenv("C12_FAILLOG"), c.shard).c_str(), "a");
    g_count = getenv("C12_COUNT"); if (g_count) c.stop = true;
    Tier t;
    if (thorough) t = {{0, 1, 2, 7, 8, 9}, 3, 2, true, true, {0x01, 0x80, 0xff}, true, {0, 1, 2, 7, 8, 9}};
    else          t = {{0, 1, 8, 9}, 3, 2, false, false, {0x01, 0xff}, false, {0, 9}};
    auto& ln = t.lens; auto ll = numlabels(ln);
    auto& l2 = t.lens2; auto ll2 = numlabels(l2);
    std::vector<int> l3 = thorough ? std::vector<int>{0, 1, 2, 8} : std::vector<int>{0, 2}; auto ll3 = numlabels(l3);
    std::vector<int> iovs, ais, maps;
    std::vector<std::string> iovl, ail, mapl;
    for (size_t i = 0; i < IOVSHAPES.size(); i++) if (thorough || i == 0 || i == 3 || i == 4) { iovs.push_back((int)i); iovl.push_back(shape_str(IOVSHAPES[i])); }
    for (size_t i = 0; i < AISHAPES.size(); i++) if (thorough || i == 0 || i == 1 || i == 4 || i == 6) { ais.push_back((int)i); ail.push_back(shape_str(AISHAPES[i])); }
    for (size_t i = 0; i < MAPSHAPES.size(); i++) if (thorough || i == 0 || i == 1 || i == 4 || i == 7) { maps.push_back((int)i); mapl.push_back(mapshape_str(MAPSHAPES[i])); }
    std::vector<int> two = {0, 1};

    auto fixed_shapes = cross({}, {}, {});
    auto basic_shapes = cross({ln, ln, ln}, {"buf", "str", "arr"}, {ll, ll, ll});
    auto aligned_shapes = cross({l2, l3, iovs, iovs}, {"b1", "ab", "iv", "aiv"}, {ll2, ll3, iovl, iovl});
    auto nested_shapes = cross({l2, ais, two, l3}, {"in1.s", "ai.s", "fb", "tail"}, {ll2, ail, numlabels(two), ll3});
    auto map_shapes = cross({l2, maps, l3}, {"buf", "map", "tail"}, {ll2, mapl, ll3});

    explore<Fixed>(c, t, 1, "Fixed", false, fixed_shapes, set_fixed<Fixed>);
    explore<FixedC>(c, t, 2, "FixedC", true, fixed_shapes, set_fixed<FixedC>);
    explore<Basic>(c, t, 3, "Basic", false, basic_shapes, set_basic<Basic>);
    explore<BasicC>(c, t, 4, "BasicC", true, basic_shapes, set_basic<BasicC>);
    explore<Aligned>(c, t, 5, "Aligned", false, aligned_shapes, set_aligned<Aligned>);
    explore<AlignedC>(c, t, 6, "AlignedC", true, aligned_shapes, set_aligned<AlignedC>);
    explore<Nested>(c, t, 7, "Nested", false, nested_shapes, set_nested<Nested, Inner>);
    explore<NestedC>(c, t, 8, "NestedC", true, nested_shapes, set_nested<NestedC, InnerC>);
    explore<WithMap>(c, t, 9, "WithMap", false, map_shapes, set_map<WithMap>);
    explore<WithMapC>(c, t, 10, "WithMapC", true, map_shapes, set_map<WithMapC>);
}

SEQX_MAIN("C12", "ser",
          "message types Fixed/Basic/Aligned/Nested/WithMap, each as Message and as CheckedMessage<>, cover fixed fields, buffer, aligned_buffer, string, array<int32>, array<Message>, fixed_buffer, "
          "iovec_array, aligned_iovec_array, nested Message, sorted_map<string,Message>. Shapes: Basic buf/str/arr in {0,1,8,9}^3 (thorough {0,1,2,7,8,9}^3); Aligned 2 lengths x 2 lengths x 3x3 iovec shapes "
          "(thorough 6x4x6x6, iovec shapes of <=3 pieces incl. an empty piece); Nested 2x4x2x2 (thorough 6x7x2x4; array<Message> of 0..3 elements); WithMap 2x4x2 (thorough 6x8x4; maps of 0..3 entries, "
          "unsorted insertion, prefix keys, empty key, default-constructed value string). (A) serialize, flatten, EVERY fragmentation into 1..3 exact-size heap blocks, deserialize, compare field-wise. "
          "(B) from every valid image: every tail and head truncation; every length/offset field <- {0,1,len-1,len+1,remaining,remaining+1,2^31,2^63,2^64-1} (pointer fields <- {0,1,2^64-1}); sorted_map slices "
          "<- zero/one-byte slices at the end of base_buffer; every byte flip (2 masks, thorough 3) of checked images; (thorough) an 8-byte word at every offset <- {0,1,2^31,2^63,2^64-1}; each in every 1- and 2-piece "
          "fragmentation (flips and words: a few cuts; thorough: field corruptions also in 3 pieces cut at payload/body boundaries). distinct = (type, corruption kind, field class x value, relation of the value "
          "to the remaining bytes, null/message/crash, #pieces, #copies the iovector made, body/payload straddles a cut, first oracle complaint, forged-checksum exemption)")
