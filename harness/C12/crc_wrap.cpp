// /repo/common/checksum/crc.cpp does not compile with clang on x86-64 as it stands: it issues three
// `#pragma clang attribute pop` (lines 679, 755, 770) for two pushes (lines 184, 680), which clang rejects
// ("'#pragma clang attribute pop' with no matching '#pragma clang attribute push'"); gcc's push_options/pop_options
// pairs are balanced. The harness must not edit /repo, so this TU compiles the unmodified file with one extra
// outer push of a harmless `annotate` attribute (no effect on code generation) that the surplus pop then closes.
#if defined(__clang__) && defined(__x86_64__)
#pragma clang attribute push (__attribute__((annotate("c12-balance"))), apply_to=function)
#endif
#include "common/checksum/crc.cpp"
