// C13 http: HTTP/1.1 framing -- parse independent of fragmentation, body bytes exact.
// Real photon::net::http::Request / Response objects receive from a MockStream that delivers a scripted byte
// string in scripted fragments. Reference model: the generator knows start line, header list and payload.
//
// Layers (enumeration order): A0 all 2^(n-1) fragmentations of the shortest messages; A core messages x every choice of <=2/<=3 cuts;
// C all fragmentations of windows around every CRLF and of short chunked bodies; B broad product start line x headers x framing with
// <=1/<=2 cuts; F smallest workable receive buffer; D writer/reader pairing (D0: zero-length write); E1 truncations; E2 bad hex;
// E4 chunk size larger than data; E3 missing CR/LF; E5 line without colon; E7 all short byte strings; E6/E8 header block / header
// count around the buffer limit. Second target (-DC13_RXBUF_NONUL): requests parsed from a receive buffer without any NUL byte.
// Set C13_COUNT=1 to get the number of cases per layer on stderr (shard log).
#include "seqx.h"
#include <photon/common/alog.h>
#include <photon/common/alog-stdstring.h>
#include <photon/common/iovector.h>
#include <photon/net/socket.h>
#include <photon/net/http/message.h>
#include <photon/net/http/headers.h>
#include <photon/net/http/verb.h>
#include <photon/thread/thread.h>
#include "net/base_socket.h"
#include <sys/uio.h>
#include <string>
#include <vector>
#include <algorithm>

using namespace photon::net::http;
using photon::net::ISocketStream;

// ---------------------------------------------------------------------------------------------------------------
// MockStream: scripted bytes in scripted fragments; after the script: 0 (EOF). Captures writes.
// recv(): at most the rest of the current fragment. read()/readv(): fully reading (loop over fragments), like
// KernelSocketStream::read (DOIO_LOOP over recv). Every call from the library counts as one step.
// ---------------------------------------------------------------------------------------------------------------
class MockStream : public photon::net::SocketStreamBase {
public:
    const char* data = nullptr; size_t len = 0, pos = 0;
    const int* cuts = nullptr; int ncuts = 0, ci = 0; bool every = false;
    uint64_t calls = 0, limit = 10000; bool overrun = false; bool closed = false;
    uint64_t tmo = -1;
    std::string out;

    void script(const std::string& w, const int* c, int n, bool ev) {
        data = w.data(); len = w.size(); pos = 0; cuts = c; ncuts = n; ci = 0; every = ev;
        limit = 4 * (uint64_t)len + 1000; if (limit < 10000) limit = 10000;
    }
    size_t frag_end() {
        if (every) return pos + 1;
        while (ci < ncuts && (size_t)cuts[ci] <= pos) ci++;
        return ci < ncuts && (size_t)cuts[ci] < len ? (size_t)cuts[ci] : len;
    }
    bool step() {
        if (++calls > limit) { overrun = true; errno = ELOOP; return false; }
        if (closed) { errno = EBADF; return false; }
        return true;
    }
    size_t recv1(void* buf, size_t count) {
        if (pos >= len || count == 0) return 0;
        size_t n = std::min(count, frag_end() - pos);
        memcpy(buf, data + pos, n); pos += n; return n;
    }
    ssize_t recv(void* buf, size_t count, int flags = 0) override { if (!step()) return -1; return recv1(buf, count); }
    ssize_t recv(const struct iovec* iov, int iovcnt, int flags = 0) override {
        if (!step()) return -1;
        if (pos >= len) return 0;
        size_t avail = frag_end() - pos, got = 0;
        for (int i = 0; i < iovcnt && avail; i++) { size_t n = std::min(avail, iov[i].iov_len); memcpy(iov[i].iov_base, data + pos, n); pos += n; avail -= n; got += n; }
        return got;
    }
    ssize_t read(void* buf, size_t count) override {
        if (!step()) return -1;
        size_t got = 0;
        while (got < count) { size_t n = recv1((char*)buf + got, count - got); if (!n) break; got += n; }
        return got;
    }
    ssize_t readv(const struct iovec* iov, int iovcnt) override {
        if (!step()) return -1;
        size_t got = 0;
        for (int i = 0; i < iovcnt; i++) {
            size_t g = 0;
            while (g < iov[i].iov_len) { size_t n = recv1((char*)iov[i].iov_base + g, iov[i].iov_len - g); if (!n) return got + g; g += n; }
            got += g;
        }
        return got;
    }
    ssize_t write(const void* buf, size_t count) override { if (!step()) return -1; out.append((const char*)buf, count); return count; }
    ssize_t writev(const struct iovec* iov, int iovcnt) override {
        if (!step()) return -1; size_t s = 0;
        for (int i = 0; i < iovcnt; i++) { out.append((const char*)iov[i].iov_base, iov[i].iov_len); s += iov[i].iov_len; }
        return s;
    }
    ssize_t send(const void* buf, size_t count, int flags = 0) override { return write(buf, count); }
    ssize_t send(const struct iovec* iov, int iovcnt, int flags = 0) override { return writev(iov, iovcnt); }
    int close() override { closed = true; return 0; }
    uint64_t timeout() const override { return tmo; }
    void timeout(uint64_t t) override { tmo = t; }
};

// protected members of Message made callable (the library's own callers are friend classes ClientImpl/HTTPServerImpl)
struct TReq : public Request {
    TReq(void* b, uint16_t cap) : Request(b, cap) {}
    TReq(void* b, uint16_t cap, Verb v, std::string_view url) : Request(b, cap, v, url) {}
    int rh() { return receive_header(); }
    int sh(ISocketStream* s) { return send_header(s); }
};
struct TResp : public Response {
    TResp(char* b, uint16_t cap) : Response(b, cap) {}
    int rh() { return receive_header(); }
};

// ---------------------------------------------------------------------------------------------------------------
// generator
// ---------------------------------------------------------------------------------------------------------------
enum El : uint8_t { E_START, E_STARTCRLF, E_HNAME, E_HSEP, E_HVAL, E_HCRLF, E_TERM, E_CLBODY, E_CSIZE, E_CEXT, E_CSCRLF, E_CDATA, E_CDCRLF,
                    E_LAST, E_LASTCRLF, E_TRAILER, E_FINAL, E_CLOSEBODY, E_TAIL, E_N };
static bool el_is_crlf(int e) { return e == E_STARTCRLF || e == E_HCRLF || e == E_TERM || e == E_CSCRLF || e == E_CDCRLF || e == E_LASTCRLF || e == E_FINAL; }

struct StartDef { bool req; const char* line; Verb verb; const char* target; const char* version; int status; const char* reason; };
static const StartDef STARTS[] = {
    {true,  "GET / HTTP/1.1",         Verb::GET,  "/",      "1.1", 0, ""},
    {true,  "POST /a?b=c HTTP/1.1",   Verb::POST, "/a?b=c", "1.1", 0, ""},
    {false, "HTTP/1.1 200 OK",        Verb::UNKNOWN, "", "1.1", 200, "OK"},
    {false, "HTTP/1.1 404 Not Found", Verb::UNKNOWN, "", "1.1", 404, "Not Found"},
    {false, "HTTP/1.0 200 OK",        Verb::UNKNOWN, "", "1.0", 200, "OK"},
};
enum { NSTART = 5 };

struct HdrDef { const char* name; const char* sep; const char* value; };
static const HdrDef POOL[] = {
    {"Host", ": ", "a"},                 // 0
    {"X-Dup", ": ", "1"},                // 1
    {"x-DUP", ": ", "2"},                // 2 duplicate of 1 in another case
    {"X-Empty", ":", ""},                // 3 empty value
    {"ACCEPT-Encoding", ":", "gzip"},    // 4 mixed case, >= 8 chars, no space after the colon
    {"X-Sp", ":   ", "v w"},             // 5 several spaces after the colon, inner space
    {"CONTENT-TYPE", ": ", "t/x"},       // 6 upper case, >= 8 chars
};
enum { NPOOL = 7 };

enum Framing { F_NONE, F_CL, F_CHUNK, F_CLOSE, F_HEAD };
struct ChunkVar { std::vector<size_t> sizes; const char* ext; const char* trailer; bool upper; int pad; const char* last; };
static const ChunkVar CHUNKS[] = {
    {{},        "", "", false, 0, "0"},          // 0
    {{1},       "", "", false, 0, "0"},          // 1
    {{0x10},    "", "", false, 0, "0"},          // 2
    {{3},       "", "", false, 0, "0"},          // 3
    {{3, 2},    "", "", false, 0, "0"},          // 4
    {{1, 4100}, "", "", false, 0, "0"},          // 5
    {{10},      ";x=1", "", true, 0, "0"},       // 6 chunk extension, upper-case hex
    {{3},       "", "X-T: 1\r\n", false, 0, "0"},// 7 trailer
    {{2, 11},   "", "", false, 2, "000"},        // 8 leading zeros, last-chunk "000"
};
enum { NCHUNKS = 9 };

struct Fr { int kind; int n; int hv; };    // n: length (CL/CLOSE/HEAD) or chunk variant; hv: header-name case variant 0 canonical, 1 lower, 2 upper

static std::string make_payload(size_t n, size_t seed = 0) {
    static const char pat[] = "b\r\n0\r\n\r\n:1;xQ";    // 13: payload that looks like framing
    std::string s(n, 0);
    for (size_t i = 0; i < n; i++) { size_t k = i + seed; s[i] = (n <= 16 || k % 5 == 3) ? pat[k % 13] : char('A' + (k * 7 + k / 26) % 26); }
    return s;
}
static std::string recase(const char* s, int hv) {
    std::string r = s;
    for (auto& ch : r) { if (hv == 1) ch = tolower(ch); else if (hv == 2) ch = toupper(ch); }
    return r;
}
static std::string esc(const std::string& s, size_t maxn = 400) {
    std::string o;
    for (size_t i = 0; i < s.size(); i++) {
        if (o.size() > maxn) { char b[40]; snprintf(b, sizeof b, "...(%zu bytes)", s.size()); o += b; break; }
        unsigned char ch = s[i];
        if (ch == '\r') o += "\\r"; else if (ch == '\n') o += "\\n"; else if (ch == '\\') o += "\\\\";
        else if (ch < 0x20 || ch >= 0x7f) { char b[8]; snprintf(b, sizeof b, "\\x%02x", ch); o += b; } else o += ch;
    }
    return o;
}

static std::string lower(std::string s) { for (auto& ch : s) ch = tolower(ch); return s; }
static std::string upper(std::string s) { for (auto& ch : s) ch = toupper(ch); return s; }
struct Lookup { std::string name; bool exact; std::vector<std::string> vals; std::string sent; };
static std::vector<Lookup> lookup_plan(const std::vector<std::pair<std::string, std::string>>& exp) {
    std::vector<Lookup> plan;
    for (auto& kv : exp) {
        std::vector<std::string> vals;
        for (auto& o : exp) if (lower(o.first) == lower(kv.first)) vals.push_back(o.second);
        std::sort(vals.begin(), vals.end());
        std::string names[3] = {kv.first, lower(kv.first), upper(kv.first)};
        for (int v = 0; v < 3; v++) { if (v > 0 && names[v] == names[0]) continue; plan.push_back({names[v], v == 0, vals, kv.first}); }
    }
    for (const char* absent : {"X-Absent", "Hos", "Content-Lengt", "Z"}) {
        bool present = false; for (auto& o : exp) if (lower(o.first) == lower(absent)) present = true;
        if (!present) plan.push_back({absent, true, {}, ""});
    }
    return plan;
}

struct Msg {
    std::string id, wire, el, escw;
    bool req = false; int start = 0; Fr fr{F_NONE, 0, 0};
    std::vector<std::pair<std::string, std::string>> hdrs;      // expected, wire order
    std::string payload;
    size_t hdr_len = 0, msg_len = 0;                            // header block length; length without tail
    std::vector<int> cand;                                      // candidate cut positions (1..L-1)
    std::vector<size_t> size_digits;                            // wire positions of chunk-size hex digits
    std::vector<size_t> hdr_starts;                             // wire positions where a header line may be inserted
    std::vector<Lookup> plan;
    int variant = 0;                                            // index among the core messages of one framing kind
    void app(const std::string& s, El e) { wire += s; el.append(s.size(), (char)e); }
    void header(const std::string& name, const std::string& sep, const std::string& value) {
        hdr_starts.push_back(wire.size());
        app(name, E_HNAME); app(sep, E_HSEP); app(value, E_HVAL); app("\r\n", E_HCRLF);
        hdrs.push_back({name, value});
    }
};

static Msg build(int start, const std::vector<int>& sel, Fr fr, int fpos, bool tail) {
    Msg m; const StartDef& S = STARTS[start];
    m.req = S.req; m.start = start; m.fr = fr;
    char idb[200]; std::string hs; for (int h : sel) hs += char('0' + h);
    snprintf(idb, sizeof idb, "S%d|H%s|F%d.%d.%d|fp%d|tail%d", start, hs.c_str(), fr.kind, fr.n, fr.hv, fpos, (int)tail);
    m.id = idb;
    m.app(S.line, E_START); m.app("\r\n", E_STARTCRLF);
    bool need_close = fr.kind == F_CLOSE && start != 4;
    for (int i = 0; i <= (int)sel.size(); i++) {
        if (i == fpos) {
            char nb[32];
            if (fr.kind == F_CL || fr.kind == F_HEAD) { snprintf(nb, sizeof nb, "%d", fr.n); m.header(recase("Content-Length", fr.hv), ": ", nb); }
            else if (fr.kind == F_CHUNK) m.header(recase("Transfer-Encoding", fr.hv), ": ", "chunked");
            else if (need_close) m.header(recase("Connection", fr.hv), ": ", "close");
        }
        if (i < (int)sel.size()) m.header(POOL[sel[i]].name, POOL[sel[i]].sep, POOL[sel[i]].value);
    }
    m.hdr_starts.push_back(m.wire.size());
    m.app("\r\n", E_TERM);
    m.hdr_len = m.wire.size();
    if (fr.kind == F_CL) { m.payload = make_payload(fr.n); m.app(m.payload, E_CLBODY); }
    else if (fr.kind == F_CLOSE) { m.payload = make_payload(fr.n, 2); m.app(m.payload, E_CLOSEBODY); }
    else if (fr.kind == F_CHUNK) {
        const ChunkVar& cv = CHUNKS[fr.n]; size_t seed = 0;
        for (size_t sz : cv.sizes) {
            char hb[40]; snprintf(hb, sizeof hb, cv.upper ? "%0*zX" : "%0*zx", cv.pad + 1, sz);
            for (size_t k = 0; hb[k]; k++) m.size_digits.push_back(m.wire.size() + k);
            m.app(hb, E_CSIZE); m.app(cv.ext, E_CEXT); m.app("\r\n", E_CSCRLF);
            std::string d = make_payload(sz, seed); seed += sz + 1; m.payload += d;
            m.app(d, E_CDATA); m.app("\r\n", E_CDCRLF);
        }
        for (size_t k = 0; cv.last[k]; k++) m.size_digits.push_back(m.wire.size() + k);
        m.app(cv.last, E_LAST); m.app(cv.ext, E_CEXT); m.app("\r\n", E_LASTCRLF);
        m.app(cv.trailer, E_TRAILER); m.app("\r\n", E_FINAL);
    }
    m.msg_len = m.wire.size();
    if (tail) m.app("Zz", E_TAIL);
    m.escw = esc(m.wire);
    m.plan = lookup_plan(m.hdrs);
    // candidate cut positions: everything, except the inside of long chunk data (kept: 3 bytes at each edge, the
    // 4096-byte recv limit and the 4096-byte line buffer limit)
    size_t L = m.wire.size();
    for (size_t p = 1; p < L; p++) {
        bool keep = true;
        if (L > 300 && m.el[p - 1] == E_CDATA && m.el[p] == E_CDATA) {
            size_t a = p, b = p; while (a > 0 && m.el[a - 1] == E_CDATA) a--; while (b < L && m.el[b] == E_CDATA) b++;
            keep = p - a <= 3 || b - p <= 3 || (p >= 4095 && p <= 4097) || (p >= m.hdr_len + 4095 && p <= m.hdr_len + 4097);
        }
        if (keep) m.cand.push_back((int)p);
    }
    return m;
}

// class of one cut (between byte p-1 and p): elements on both sides, or "between CR and LF"
static uint64_t cut_class(const std::string& el, size_t p) {
    if (p == 0 || p >= el.size()) return 999;
    int a = el[p - 1], b = el[p];
    if (a == b && el_is_crlf(a)) return 500 + a;      // CRLF elements are two bytes: equal on both sides = between CR and LF
    return a * 32 + b;
}

// ---------------------------------------------------------------------------------------------------------------
// running one delivery through the real code
// ---------------------------------------------------------------------------------------------------------------
struct Delivery { int n = 0; int p[40]; bool every = false; };
enum { RB_BIG = 8192 };
enum Mode { M_SERVER_REQ, M_CLIENT_RESP };

struct Result {
    int rh = -99;
    Verb verb = Verb::UNKNOWN; std::string target, version, reason; int status = 0;
    std::vector<std::pair<std::string, std::string>> hdrs;      // iteration order
    std::string body; struct { ssize_t v[64]; size_t n = 0; size_t size() const { return n; } ssize_t operator[](size_t i) const { return v[i]; } } rcs; ssize_t last_rc = -99; ssize_t again_rc = -99;
    bool overrun = false, endless = false, hdr_changed = false;
    uint64_t calls = 0;
    std::string lookup_err, lookup_case_err;
};


static void snapshot_headers(const Headers& h, std::vector<std::pair<std::string, std::string>>& out) {
    out.clear(); out.reserve(8); int guard = 0;
    for (auto it = h.begin(); it != h.end(); ++it) {
        auto k = it.first(); auto v = it.second();
        out.push_back({std::string(k.data(), k.size()), std::string(v.data(), v.size())});
        if (++guard > 20000) break;
    }
}

// lookups through find / operator[] / equal_range with the wire-case name (exact) and other-case names
static bool has_val(const std::vector<std::string>& vals, std::string_view v) {
    for (auto& x : vals) if (x.size() == v.size() && !memcmp(x.data(), v.data(), v.size())) return true;
    return false;
}
static void check_lookups(const Headers& h, const std::vector<Lookup>& plan, Result& r) {
    for (auto& L : plan) {
        std::string& err = L.exact ? r.lookup_err : r.lookup_case_err;
        if (!err.empty()) continue;
        auto it = h.find(L.name);
        if (L.vals.empty()) {
            if (it != h.end() || !h[L.name].empty()) err = "absent header \"" + L.name + "\" found";
            continue;
        }
        if (it == h.end()) { err = "find(\"" + L.name + "\") == end() although header \"" + L.sent + "\" was sent"; continue; }
        auto sv = it.second();
        if (!has_val(L.vals, sv)) { err = "find(\"" + L.name + "\") -> \"" + esc(std::string(sv.data(), sv.size())) + "\""; continue; }
        auto bv = h[L.name];
        if (!has_val(L.vals, bv)) { err = "operator[](\"" + L.name + "\") -> \"" + esc(std::string(bv.data(), bv.size())) + "\""; continue; }
        auto er = h.equal_range(L.name); size_t n = 0; bool ok = true;
        for (auto i = er.first; i != er.second && n < 100; ++i, ++n) if (!has_val(L.vals, i.second())) ok = false;
        // duplicates in this pool have distinct values, so "every value is one of the expected ones" + count = multiset equality
        if (!ok || n != L.vals.size()) { char b[160]; snprintf(b, sizeof b, "equal_range(\"%s\") has %zu values, expected %zu", L.name.c_str(), n, L.vals.size()); err = b; continue; }
    }
}

// receive + read the whole body. cap: receive buffer size (own exact-size heap block, filled with 0xDD).
// rb: body read buffer size (own exact-size heap block, filled with 0xEE before every read). maxreads: harness-side bound.
static void run(const std::string& wire, const Delivery& d, Mode mode, Verb client_verb, unsigned cap, size_t rb, size_t maxreads,
                const std::vector<Lookup>* plan, Result& r) {
    MockStream ms; ms.script(wire, d.p, d.n, d.every);
    // exact-size heap blocks, reused between cases of the same size (a fresh 64 KiB block per case costs 200 us of page faults)
    static char* bufs[65536]; static char* ubs[RB_BIG + 1];
    bool fresh = !bufs[cap];
    if (fresh) bufs[cap] = (char*)malloc(cap);
    if (!ubs[rb]) ubs[rb] = (char*)malloc(rb);
    // refill with 0xDD: everything after a run that failed or parsed many headers, else only what a run can have touched
    // (received bytes + 4 KiB chunk line buffer from the front, header index from the back)
    static bool dirty[65536];
    char* buf = bufs[cap];
    size_t front = wire.size() + 2 * 4096 + 64, back = 2048;
    if (fresh || dirty[cap] || front + back >= cap) memset(buf, 0xDD, cap);
    else { memset(buf, 0xDD, front); memset(buf + cap - back, 0xDD, back); }
    dirty[cap] = false;
#ifndef C13_RXBUF_NONUL
    // Request::parse_request_line (message.cpp:369) runs strlen() over the receive buffer (char* -> string_view); with a buffer
    // that holds no NUL byte this leaves the block. That defect is reported by the separate target http_rxbuf_nonul; here the
    // LAST byte inside the capacity is preset to NUL so that every other case can be explored (still an exact-size block).
    if (mode == M_SERVER_REQ) buf[cap - 1] = 0;
#endif
    char* ub = ubs[rb];
    {
        TReq req(buf, (uint16_t)cap); TResp resp(buf, (uint16_t)cap);
        Message* m;
        if (mode == M_SERVER_REQ) { req.reset(&ms, false); r.rh = req.rh(); m = &req; }
        else { resp.reset(buf, (uint16_t)cap, false, &ms, false, client_verb); resp.reset_status(HEADER_SENT); r.rh = resp.rh(); m = &resp; }
        if (r.rh == 0) {
            auto ver = m->version(); r.version.assign(ver.data(), ver.size());
            if (mode == M_SERVER_REQ) { r.verb = req.verb(); auto t = req.target(); r.target.assign(t.data(), t.size()); }
            else { r.status = resp.status_code(); auto s = resp.status_message(); r.reason.assign(s.data(), s.size()); }
            snapshot_headers(m->headers, r.hdrs);
            if (plan) check_lookups(m->headers, *plan, r);
            size_t reads = 0;
            while (true) {
                memset(ub, 0xEE, rb);
                ssize_t rc = m->read(ub, rb);
                r.last_rc = rc;
                if (r.rcs.n < 64) r.rcs.v[r.rcs.n++] = rc;
                if (rc <= 0) break;
                if ((size_t)rc > rb) { r.body.append("<rc larger than buffer>"); break; }
                r.body.append(ub, rc);
                if (++reads > maxreads) { r.endless = true; break; }
            }
            if (r.last_rc == 0) { memset(ub, 0xEE, rb); r.again_rc = m->read(ub, rb); }
            // the header view must survive reading the body (chunk line buffer lives in the same block)
            static std::vector<std::pair<std::string, std::string>> again; snapshot_headers(m->headers, again);
            if (again != r.hdrs) r.hdr_changed = true;
            if (mode == M_SERVER_REQ) { auto t = req.target(); if (r.target != std::string(t.data(), t.size())) r.hdr_changed = true; }
            else { auto s = resp.status_message(); if (r.reason != std::string(s.data(), s.size())) r.hdr_changed = true; }
        }
    }
    r.overrun = ms.overrun; r.calls = ms.calls;
    if (r.rh != 0 || r.hdrs.size() > 200) dirty[cap] = true;
}

static bool is_subsequence(const std::string& a, const std::string& of) {
    size_t j = 0;
    for (size_t i = 0; i < a.size(); i++) { while (j < of.size() && of[j] != a[i]) j++; if (j == of.size()) return false; j++; }
    return true;
}

static std::string rcs_str(const Result& r) {
    std::string s; char b[32];
    for (size_t i = 0; i < r.rcs.size() && i < 12; i++) { snprintf(b, sizeof b, "%s%zd", i ? "," : "", r.rcs[i]); s += b; }
    if (r.rcs.size() > 12) s += ",...";
    return s;
}

// full oracle for a valid message
static uint64_t check_valid(seqx::Ctx& c, const Msg& m, const Result& r, size_t rb) {
    const StartDef& S = STARTS[m.start];
    if (r.overrun || r.endless) { c.fail("endless-loop", "step bound exceeded: %llu stream calls for a %zu byte message", (unsigned long long)r.calls, m.wire.size()); return 1; }
    if (r.rh != 0) { c.fail("valid-message-rejected", "receive_header() = %d for a valid message", r.rh); return 2; }
    if (r.version != S.version) c.fail("start-line-mismatch", "version \"%s\" expected \"%s\"", esc(r.version).c_str(), S.version);
    if (m.req) {
        if (r.verb != S.verb) c.fail("start-line-mismatch", "verb %d expected %d", (int)r.verb, (int)S.verb);
        if (r.target != S.target) c.fail("start-line-mismatch", "target \"%s\" expected \"%s\"", esc(r.target).c_str(), S.target);
    } else {
        if (r.status != S.status) c.fail("start-line-mismatch", "status %d expected %d", r.status, S.status);
        if (r.reason != S.reason) c.fail("start-line-mismatch", "reason \"%s\" expected \"%s\"", esc(r.reason).c_str(), S.reason);
    }
    auto a = r.hdrs, b = m.hdrs; std::sort(a.begin(), a.end()); std::sort(b.begin(), b.end());
    if (a != b) {
        std::string g; for (auto& kv : r.hdrs) g += "[" + esc(kv.first) + "=" + esc(kv.second) + "]";
        c.fail("header-multimap-mismatch", "iteration gives %zu headers %s, expected %zu", r.hdrs.size(), g.c_str(), m.hdrs.size());
    }
    if (!r.lookup_err.empty()) c.fail("header-lookup-mismatch", "%s", r.lookup_err.c_str());
    if (!r.lookup_case_err.empty()) c.fail("header-lookup-other-case-mismatch", "%s", r.lookup_case_err.c_str());
    if (r.hdr_changed) c.fail("header-view-changed-by-body-read", "headers / start line differ after reading the body");
    if (r.body != m.payload) {
        size_t k = 0; while (k < r.body.size() && k < m.payload.size() && r.body[k] == m.payload[k]) k++;
        c.fail("body-bytes-mismatch", "body %zu bytes, payload %zu bytes, first difference at %zu; read rcs=%s; got \"%s\"", r.body.size(), m.payload.size(), k, rcs_str(r).c_str(), esc(r.body, 80).c_str());
        return 3;
    }
    if (r.last_rc != 0) { c.fail("end-of-body-not-reported", "after the payload read() = %zd (rcs=%s)", r.last_rc, rcs_str(r).c_str()); return 4; }
    if (r.again_rc != 0) c.fail("end-of-body-not-stable", "second read() after end-of-body = %zd", r.again_rc);
    // return codes: a fully-reading body stream gives min(rb, remaining) every time -- the sequence every fragmentation must share
    size_t rem = m.payload.size(), i = 0; bool ok = true;
    for (; rem > 0 && i < r.rcs.size(); i++) { size_t e = std::min(rb, rem); if (r.rcs[i] != (ssize_t)e) { ok = false; break; } rem -= e; }
    if (!ok) c.fail("body-rc-sequence-depends-on-fragmentation", "read(%zu) return codes %s are not min(count, remaining)", rb, rcs_str(r).c_str());
    return 0;
}

// oracle for truncated / malformed / arbitrary input: terminates, and every body byte comes from the input
static uint64_t check_safe(seqx::Ctx& c, const std::string& wire, const Result& r) {
    if (r.overrun || r.endless) { c.fail("endless-loop", "step bound exceeded: %llu stream calls for %zu input bytes", (unsigned long long)r.calls, wire.size()); return 1; }
    if (r.rh == 0) {
        if (!is_subsequence(r.body, wire)) { c.fail("body-bytes-from-outside-the-message", "body \"%s\" is not made of the input bytes", esc(r.body, 80).c_str()); return 5; }
        // (a malformed header line may be parsed leniently into a "header" that extends into the body bytes, which the chunk reader
        //  moves around later: not demanded to be stable by the property, so hdr_changed is not an error here)
        for (auto& kv : r.hdrs) if (kv.first.find('\xDD') != std::string::npos || kv.second.find('\xDD') != std::string::npos) { c.fail("header-bytes-from-outside-the-message", "header contains receive-buffer filler"); break; }
        return (r.last_rc < 0 ? 6 : 7) + 20 * r.hdr_changed;
    }
    return r.rh == 1 ? 8 : 9;
}

// ---------------------------------------------------------------------------------------------------------------
// case execution helpers
// ---------------------------------------------------------------------------------------------------------------
static uint64_t delivery_class(const std::string& el, const Delivery& d) {
    if (d.every) return 777;
    uint64_t cl[40]; int n = 0;
    for (int i = 0; i < d.n; i++) cl[n++] = cut_class(el, d.p[i]);
    std::sort(cl, cl + n);
    uint64_t h = 1000 + std::min(d.n, 6);
    if (n > 3) n = (int)(std::unique(cl, cl + n) - cl);       // many cuts: the set of classes, not the multiset
    for (int i = 0; i < n; i++) h = seqx::mix(h, cl[i]);
    return h;
}
static uint64_t frame_class(const Msg& m) {
    return (m.req ? 1 : 0) + 2 * (m.fr.kind * 100 + (m.fr.kind == F_CHUNK ? m.fr.n : std::min(m.fr.n, 9))) + 5000 * (m.wire.size() > m.msg_len);
}
static const char* mode_name(const Msg& m) { return m.req ? "server-request" : (m.fr.kind == F_HEAD ? "client-response-to-HEAD" : "client-response"); }

static void exec_valid(seqx::Ctx& c, const Msg& m, const Delivery& d, size_t rb, unsigned cap, bool tolerant, uint64_t layer) {
    Result r;
    run(m.wire, d, m.req ? M_SERVER_REQ : M_CLIENT_RESP, m.fr.kind == F_HEAD ? Verb::HEAD : Verb::GET, cap, rb, m.payload.size() + 8, &m.plan, r);
    uint64_t out;
    if (tolerant && r.rh < 0 && !r.overrun) out = 20;     // small buffer: "no buffer" is an accepted answer
    else out = check_valid(c, m, r, rb);
    uint64_t h = seqx::mix(layer, frame_class(m));
    h = seqx::mix(h, delivery_class(m.el, d)); h = seqx::mix(h, rb == 1 ? 1 : rb == 2 ? 2 : rb == 7 ? 4 : 3); h = seqx::mix(h, out);
    c.cls(h);
}

#define DESC_FMT "%s msg=%s mode=%s cap=%u rb=%zu delivery=%s cuts=%d,%d,%d wire=\"%s\""
#define DESC_ARGS(lname, m, cap, rb, dl, a, b, cc) lname, (m).id.c_str(), mode_name(m), cap, (size_t)(rb), dl, a, b, cc, (m).escw.c_str()

// whole / one byte at a time / every choice of <= kmax cuts among the candidate positions
static void layer_cuts(seqx::Ctx& c, const Msg& m, int kmax, const std::vector<size_t>& rbs, unsigned cap, bool tolerant, const char* lname, uint64_t lid, bool with_every = true) {
    const std::vector<int>& P = m.cand; int n = (int)P.size();
    for (size_t rb : rbs) {
        Delivery d;
        if (c.begin(DESC_FMT, DESC_ARGS(lname, m, cap, rb, "whole", -1, -1, -1))) exec_valid(c, m, d, rb, cap, tolerant, lid);
        if (with_every && c.begin(DESC_FMT, DESC_ARGS(lname, m, cap, rb, "one-byte-at-a-time", -1, -1, -1))) { d.every = true; exec_valid(c, m, d, rb, cap, tolerant, lid); d.every = false; }
        if (kmax >= 1) for (int i = 0; i < n; i++) {
            if (c.begin(DESC_FMT, DESC_ARGS(lname, m, cap, rb, "cuts", P[i], -1, -1))) { d.n = 1; d.p[0] = P[i]; exec_valid(c, m, d, rb, cap, tolerant, lid); }
            if (kmax >= 2) for (int j = i + 1; j < n; j++) {
                if (c.begin(DESC_FMT, DESC_ARGS(lname, m, cap, rb, "cuts", P[i], P[j], -1))) { d.n = 2; d.p[0] = P[i]; d.p[1] = P[j]; exec_valid(c, m, d, rb, cap, tolerant, lid); }
                if (kmax >= 3) for (int k = j + 1; k < n; k++)
                    if (c.begin(DESC_FMT, DESC_ARGS(lname, m, cap, rb, "cuts", P[i], P[j], P[k]))) { d.n = 3; d.p[0] = P[i]; d.p[1] = P[j]; d.p[2] = P[k]; exec_valid(c, m, d, rb, cap, tolerant, lid); }
            }
        }
    }
}

// ALL subsets of the cut positions lo+1 .. lo+w (w <= 24); subsets with <= skip_upto cuts are left to layer_cuts
static void layer_window(seqx::Ctx& c, const Msg& m, int lo, int w, int skip_upto, const std::vector<size_t>& rbs, const char* lname, uint64_t lid) {
    int L = (int)m.wire.size();
    if (lo < 0) lo = 0;
    if (lo + w > L - 1) w = L - 1 - lo;
    if (w <= 0) return;
    for (size_t rb : rbs)
        for (uint32_t mask = 0; mask < (1u << w); mask++) {
            if (__builtin_popcount(mask) <= skip_upto) continue;
            if (!c.begin("%s msg=%s mode=%s cap=65535 rb=%zu delivery=window first_cut_pos=%d cutmask=0x%x (bit i = cut before byte first_cut_pos+i) wire=\"%s\"",
                         lname, m.id.c_str(), mode_name(m), rb, lo + 1, mask, m.escw.c_str())) continue;
            Delivery d;
            for (int i = 0; i < w; i++) if (mask >> i & 1) d.p[d.n++] = lo + 1 + i;
            exec_valid(c, m, d, rb, 65535, false, lid);
        }
}

// ---------------------------------------------------------------------------------------------------------------
// message sets
// ---------------------------------------------------------------------------------------------------------------
static const std::vector<std::vector<int>>& core_sels() {
    static const std::vector<std::vector<int>> S = {{}, {0}, {1, 2}, {3}, {6}, {4, 5}, {0, 3, 1}, {2, 6, 1}, {5, 0}, {3, 3}, {4}, {6, 4, 3}};
    return S;
}
static std::vector<Fr> core_frames(bool thorough) {
    std::vector<Fr> f = {{F_NONE, 0, 0}, {F_CL, 0, 0}, {F_CL, 1, 0}, {F_CL, 5, 0}, {F_CL, 5, 1}};
    if (thorough) f.push_back({F_CL, 5, 2});
    for (int i = 0; i < NCHUNKS; i++) f.push_back({F_CHUNK, i, 0});
    f.push_back({F_CHUNK, 4, 1}); f.push_back({F_CHUNK, 1, 2});
    f.push_back({F_CLOSE, 0, 0}); f.push_back({F_CLOSE, 1, 0}); f.push_back({F_CLOSE, 5, 0}); f.push_back({F_CLOSE, 5, 1});
    f.push_back({F_HEAD, 5, 0});
    return f;
}
static bool start_allowed(int start, const Fr& fr) {
    if (fr.kind == F_CLOSE || fr.kind == F_HEAD) return !STARTS[start].req;
    return true;
}
static std::vector<Msg> core_messages(bool thorough) {
    std::vector<Msg> out; auto frs = core_frames(thorough); auto& S = core_sels();
    int V = thorough ? 4 : 2;
    for (size_t fi = 0; fi < frs.size(); fi++)
        for (int v = 0; v < V; v++) {
            int start = (int)(fi + 2 * v + (v > 1)) % NSTART; while (!start_allowed(start, frs[fi])) start = (start + 1) % NSTART;
            const auto& sel = S[(fi * 5 + v * 7) % S.size()];
            int fpos = (int)((fi + v) % (sel.size() + 1));
            bool tail = (frs[fi].kind == F_CL || frs[fi].kind == F_CHUNK) && (v % 2 == 1);
            out.push_back(build(start, sel, frs[fi], fpos, tail)); out.back().variant = v;
        }
    return out;
}

static void tick(seqx::Ctx& c, const char* name) { static uint64_t last = 0; static int on = -1; if (on < 0) on = getenv("C13_COUNT") != nullptr; static double t0 = seqx::now_s(); if (on) fprintf(stderr, "  %-28s %llu  t=%.1fs\n", name, (unsigned long long)(c.counter - last), seqx::now_s() - t0); last = c.counter; }

static void enum_valid(seqx::Ctx& c, bool thorough) {
    const std::vector<size_t> RB3 = {1, 2, RB_BIG}, RB2 = {1, RB_BIG}, RB1 = {RB_BIG};
    std::vector<Msg> core = core_messages(thorough);
    // A0: every fragmentation of the shortest real messages (2^(n-1) deliveries)
    {
        Msg a = build(0, {}, {F_NONE, 0, 0}, 0, false);       // "GET / HTTP/1.1\r\n\r\n"  18 bytes
        layer_window(c, a, 0, (int)a.wire.size() - 1, -1, RB1, "A0-all-fragmentations", 10);
        Msg b = build(2, {}, {F_NONE, 0, 0}, 0, false);       // "HTTP/1.1 200 OK\r\n\r\n" 19 bytes
        if (thorough) layer_window(c, b, 0, (int)b.wire.size() - 1, -1, RB1, "A0-all-fragmentations", 10);
        else layer_window(c, b, 6, 12, -1, RB1, "A0-all-fragmentations-of-last-13-bytes", 10);
    }
    tick(c, "A0");
    // A: core messages, every choice of <= 2 (quick) / <= 3 (thorough) cuts, whole, one byte at a time
    // (thorough: <= 3 cuts for the first two messages of every framing kind, <= 2 for its 2 other variants)
    int kmax = 2;
    // (multi-kilobyte payload: read size 1 only with <= 1 cut, sizes 7 and 8192 with more cuts -- 4100 read() calls per case otherwise)
    const std::vector<size_t> RBL = {7, RB_BIG}, RBONE = {1};
    for (auto& m : core) {
        bool big = m.payload.size() > 1000;
        layer_cuts(c, m, thorough && m.variant <= 1 ? 3 : 2, m.payload.empty() ? RB2 : big ? RBL : RB3, 65535, false, "A-cuts", 11);
        if (big) layer_cuts(c, m, 1, RBONE, 65535, false, "A-cuts", 11);
    }
    tick(c, "A");
    // C: all fragmentations of a window around every CRLF / terminator / chunk-size line, and of the whole body framing
    int W = thorough ? 12 : 8;
    for (auto& m : core) {
        int L = (int)m.wire.size(), last = -100;
        for (int p = 1; p < L; p++) {
            if (!(el_is_crlf(m.el[p]) && m.el[p - 1] == m.el[p])) continue;       // p = position of an LF of a structural CRLF
            int lo = p - W / 2 - 1;
            if (lo < last + W / 2) continue;                                       // windows overlap by at most half
            last = lo;
            layer_window(c, m, lo, W, kmax, RB2, "C-window", 12);
        }
        int bodyw = (int)m.wire.size() - (int)m.hdr_len;
        if (m.fr.kind == F_CHUNK && bodyw + 2 <= (thorough ? 21 : 15))
            layer_window(c, m, (int)m.hdr_len - 3, bodyw + 2, kmax, RB3, "C-body-all-fragmentations", 13);
    }
    tick(c, "C");
    // B: broad product of start line x header selection x framing x position of the framing header; <= 1 cut (quick) / <= 2 cuts (thorough)
    std::vector<std::vector<int>> sels = {{}};
    for (int a = 0; a < NPOOL; a++) { sels.push_back({a}); for (int b = 0; b < NPOOL; b++) { sels.push_back({a, b}); if (thorough) for (int d = 0; d < NPOOL; d++) sels.push_back({a, b, d}); } }
    const Fr FB[] = {{F_NONE, 0, 0}, {F_CL, 5, 0}, {F_CHUNK, 4, 0}, {F_CLOSE, 1, 0}};
    for (int start = 0; start < NSTART; start++)
        for (auto& sel : sels)
            for (auto& fr : FB) {
                if (!start_allowed(start, fr)) continue;
                int npos = (fr.kind == F_NONE || (fr.kind == F_CLOSE && start == 4)) ? 1 : (int)sel.size() + 1;
                for (int fpos = 0; fpos < npos; fpos++) {
                    if (thorough && sel.size() == 3 && fpos != 0 && fpos != 3) continue;
                    Msg m = build(start, sel, fr, fpos, false);
                    layer_cuts(c, m, (thorough && sel.size() <= 1) ? 2 : 1, thorough ? RB2 : RB1, 65535, false, "B-product", 14);
                }
            }
    tick(c, "B");
    // F: smallest receive buffer that can still take the header one byte at a time (cap = header + 5121): "no buffer" or the right answer
    for (auto& m : core) {
        unsigned cap = (unsigned)m.hdr_len + 5121;
        layer_cuts(c, m, 1, RB2, cap, true, "F-tight-buffer", 15);
    }
}


// ---------------------------------------------------------------------------------------------------------------
// E: truncated / malformed / arbitrary input
// ---------------------------------------------------------------------------------------------------------------
enum BadKind { K_TRUNC = 1, K_BADHEX, K_NOCR, K_NOLF, K_BIGCHUNK, K_NOCOLON, K_GARBAGE, K_OVERSIZE, K_MANYHDR };

// strict oracle for a truncated valid message: header incomplete => receive_header() != 0; else body = prefix of the payload
// that is present in the input, then error or end-of-stream
static uint64_t check_trunc(seqx::Ctx& c, const Msg& m, size_t T, const std::string& wire, const Result& r) {
    uint64_t o = check_safe(c, wire, r);
    if (o == 1 || o == 5) return o;
    if (T < m.hdr_len) { if (r.rh == 0) { c.fail("truncated-header-accepted", "receive_header() = 0 although only %zu of %zu header bytes were sent", T, m.hdr_len); return 30; } return o; }
    if (r.rh != 0) { c.fail("valid-message-rejected", "receive_header() = %d although the complete header block was sent (truncated in the body)", r.rh); return 31; }
    size_t present = 0;      // payload bytes contained in wire[0,T)
    for (size_t p = m.hdr_len; p < T; p++) if (m.el[p] == E_CLBODY || m.el[p] == E_CDATA || m.el[p] == E_CLOSEBODY) present++;
    if (r.body.size() > present || m.payload.compare(0, r.body.size(), r.body) != 0) {
        c.fail("truncated-body-not-a-payload-prefix", "body %zu bytes \"%s\", input holds %zu payload bytes", r.body.size(), esc(r.body, 60).c_str(), present); return 32;
    }
    return o * 10 + (r.body.size() == present);
}

static void exec_bad(seqx::Ctx& c, const Msg& m, int kind, size_t T, const std::string& wire, const std::string& el, const Delivery& d, size_t rb, unsigned cap, uint64_t sub) {
    Result r;
    run(wire, d, m.req ? M_SERVER_REQ : M_CLIENT_RESP, m.fr.kind == F_HEAD ? Verb::HEAD : Verb::GET, cap, rb, wire.size() + 8, nullptr, r);
    uint64_t o = kind == K_TRUNC ? check_trunc(c, m, T, wire, r) : check_safe(c, wire, r);
    uint64_t h = seqx::mix(100 + kind, frame_class(m)); h = seqx::mix(h, sub);
    h = seqx::mix(h, delivery_class(el, d)); h = seqx::mix(h, rb == 1 ? 1 : 3); h = seqx::mix(h, o);
    c.cls(h);
}

// whole / one byte at a time / every single cut (two cuts if k2) of a bad input
static void bad_deliveries(seqx::Ctx& c, const Msg& m, int kind, const char* kname, const std::string& what, size_t T, const std::string& wire, const std::string& el,
                           const std::vector<int>& cand, bool k2, const std::vector<size_t>& rbs, uint64_t sub, unsigned cap = 65535) {
    std::string ew;      // escaped input, built lazily (only when a case of this input is ours)
    auto E = [&]() -> const char* {
        bool mine = c.has_only ? c.counter == c.only_index : (int)(c.counter % c.nshards) == c.shard;      // what begin() is about to decide
        if (!mine) return "";
        if (ew.empty()) ew = esc(wire); return ew.c_str(); };
    int n = (int)cand.size(), L = (int)wire.size();
#define BAD_FMT "E-%s %s base=%s mode=%s cap=%u rb=%zu delivery=%s cuts=%d,%d input(%d bytes)=\"%s\""
    for (size_t rb : rbs) {
        Delivery d;
        if (c.begin(BAD_FMT, kname, what.c_str(), m.id.c_str(), mode_name(m), cap, rb, "whole", -1, -1, L, E())) exec_bad(c, m, kind, T, wire, el, d, rb, cap, sub);
        if (L > 1 && c.begin(BAD_FMT, kname, what.c_str(), m.id.c_str(), mode_name(m), cap, rb, "one-byte-at-a-time", -1, -1, L, E())) { d.every = true; exec_bad(c, m, kind, T, wire, el, d, rb, cap, sub); d.every = false; }
        for (int i = 0; i < n && cand[i] < L; i++) {
            if (c.begin(BAD_FMT, kname, what.c_str(), m.id.c_str(), mode_name(m), cap, rb, "cuts", cand[i], -1, L, E())) { d.n = 1; d.p[0] = cand[i]; exec_bad(c, m, kind, T, wire, el, d, rb, cap, sub); }
            if (k2) for (int j = i + 1; j < n && cand[j] < L; j++)
                if (c.begin(BAD_FMT, kname, what.c_str(), m.id.c_str(), mode_name(m), cap, rb, "cuts", cand[i], cand[j], L, E())) { d.n = 2; d.p[0] = cand[i]; d.p[1] = cand[j]; exec_bad(c, m, kind, T, wire, el, d, rb, cap, sub); }
        }
    }
}
static std::vector<int> all_positions(size_t L) { std::vector<int> v; for (size_t p = 1; p < L; p++) v.push_back((int)p); return v; }
// candidate cut positions of a modified message: near the modification, plus the base candidates shifted
static std::vector<int> near_positions(const Msg& m, size_t at, int delta, size_t L) {
    std::vector<int> v;
    for (int p : m.cand) { int q = (size_t)p <= at ? p : p + delta; if (q >= 1 && q < (int)L) v.push_back(q); }
    for (int q = (int)at - 2; q <= (int)at + 3 + (delta > 0 ? delta : 0); q++) if (q >= 1 && q < (int)L) v.push_back(q);
    std::sort(v.begin(), v.end()); v.erase(std::unique(v.begin(), v.end()), v.end());
    return v;
}

static void enum_bad(seqx::Ctx& c, bool thorough) {
    tick(c, "D");
    const std::vector<size_t> RB2 = {1, RB_BIG}, RB1 = {RB_BIG};
    std::vector<Msg> core = core_messages(thorough);
    char what[200];
    // E1 every truncation point of every core message
    for (auto& m : core) {
        bool longmsg = m.wire.size() > 300;
        std::vector<int> Ts = {0}; if (longmsg) for (int p : m.cand) Ts.push_back(p); else for (size_t p = 1; p < m.msg_len; p++) Ts.push_back((int)p);
        for (int T : Ts) {
            if ((size_t)T >= m.msg_len) continue;
            std::string w = m.wire.substr(0, T), el = m.el.substr(0, T);
            snprintf(what, sizeof what, "truncated-after=%d(of %zu)", T, m.msg_len);
            std::vector<int> cand; for (int p : m.cand) if (p < T) cand.push_back(p);
            bad_deliveries(c, m, K_TRUNC, "trunc", what, T, w, el, cand, thorough && !longmsg && m.variant <= 1, RB2, T < (int)m.hdr_len ? 0 : m.el[T]);
        }
    }
    tick(c, "F+D+E1");
    // E2 chunk-size digits replaced by non-hex; E4 chunk size larger than the data that follows
    for (auto& m : core) {
        if (m.fr.kind != F_CHUNK) continue;
        for (size_t di = 0; di < m.size_digits.size(); di++) {
            size_t p = m.size_digits[di];
            for (char ch : {'g', '-', ' ', 'x', '\r', '\n'}) {
                std::string w = m.wire; w[p] = ch;
                snprintf(what, sizeof what, "byte[%zu]('%c' of a chunk-size)->0x%02x", p, m.wire[p], ch);
                bad_deliveries(c, m, K_BADHEX, "badhex", what, 0, w, m.el, near_positions(m, p, 0, w.size()), thorough && w.size() < 300 && m.variant <= 1, RB2, ch * 4 + (m.el[p] == E_LAST));
            }
            if (m.el[p] != E_LAST && (p + 1 == m.wire.size() || m.el[p + 1] != E_CSIZE)) {          // last digit of a data chunk's size
                for (const char* repl : {"+1", "+2", "1000", "ffffffffffffffff", "fffffffffffffffff"}) {
                    std::string w = m.wire, el = m.el;
                    if (repl[0] == '+') { int v = (w[p] >= 'a' ? w[p] - 'a' + 10 : w[p] >= 'A' ? w[p] - 'A' + 10 : w[p] - '0') + (repl[1] - '0'); if (v > 15) continue; w[p] = "0123456789abcdef"[v]; }
                    else { size_t a = p; while (a > 0 && m.el[a - 1] == E_CSIZE) a--; w.replace(a, p + 1 - a, repl); el.replace(a, p + 1 - a, std::string(strlen(repl), (char)E_CSIZE)); }
                    snprintf(what, sizeof what, "chunk-size-at[%zu]:=%s(larger than the data)", p, repl);
                    bad_deliveries(c, m, K_BIGCHUNK, "bigchunk", what, 0, w, el, near_positions(m, p, (int)w.size() - (int)m.wire.size(), w.size()), false, RB2, repl[0] * 8 + strlen(repl));
                }
            }
        }
    }
    tick(c, "E2/E4");
    // E3 one CR or one LF of a structural CRLF missing
    for (auto& m : core)
        for (size_t p = 0; p < m.msg_len; p++) {
            if (!el_is_crlf(m.el[p])) continue;
            bool is_lf = p > 0 && m.el[p - 1] == m.el[p];
            std::string w = m.wire, el = m.el; w.erase(p, 1); el.erase(p, 1);
            snprintf(what, sizeof what, "%s-at[%zu]-deleted", is_lf ? "LF" : "CR", p);
            bad_deliveries(c, m, is_lf ? K_NOLF : K_NOCR, is_lf ? "nolf" : "nocr", what, 0, w, el, near_positions(m, p, -1, w.size()), thorough && w.size() < 300 && m.variant <= 1, RB2, m.el[p]);
        }
    tick(c, "E3");
    // E5 header line without colon, inserted at every header position
    for (auto& m : core)
        for (size_t hi = 0; hi < m.hdr_starts.size(); hi++)
            for (const char* line : {"NoColonHere\r\n", "\r", " \r\n"}) {
                size_t p = m.hdr_starts[hi];
                std::string w = m.wire, el = m.el; w.insert(p, line); el.insert(p, std::string(strlen(line), (char)E_HNAME));
                snprintf(what, sizeof what, "line-without-colon(%zu bytes)-inserted-at[%zu]", strlen(line), p);
                bad_deliveries(c, m, K_NOCOLON, "nocolon", what, 0, w, el, near_positions(m, p, (int)strlen(line), w.size()), false, RB2, hi * 4 + strlen(line) % 4);
            }
    tick(c, "E5");
    // E7 every byte string up to length n over a small alphabet: as a whole message, after a valid start line, as a chunked body
    {
        const char A[] = {'G', '1', ' ', '\r', '\n', ':', '0', 'H'}; const char B[] = {'0', '1', 'a', '\r', '\n', ';', 'g'};
        Msg rq = build(0, {}, {F_NONE, 0, 0}, 0, false), rs = build(2, {}, {F_NONE, 0, 0}, 0, false);
        Msg cq = build(1, {}, {F_CHUNK, 0, 0}, 0, false), cs = build(2, {0}, {F_CHUNK, 0, 0}, 1, false);
        struct G { const Msg* base; size_t keep; const char* alpha; int na; int maxlen; const char* name; };
        G gs[] = {{&rq, 0, A, 8, thorough ? 6 : 4, "garbage-as-request"}, {&rs, 0, A, 8, thorough ? 6 : 4, "garbage-as-response"},
                  {&rq, 16, A, 8, thorough ? 5 : 3, "garbage-after-request-line"}, {&rs, 17, A, 8, thorough ? 5 : 3, "garbage-after-status-line"},
                  {&cq, cq.hdr_len, B, 7, thorough ? 7 : 5, "garbage-as-chunked-request-body"}, {&cs, cs.hdr_len, B, 7, thorough ? 7 : 5, "garbage-as-chunked-response-body"}};
        for (auto& g : gs)
            for (int len = 1; len <= g.maxlen; len++) {
                uint64_t total = 1; for (int i = 0; i < len; i++) total *= g.na;
                for (uint64_t code = 0; code < total; code++) {
                    bool mine_w = c.begin("E-%s code=%llu len=%d (base %zu bytes of %s + digits of code in base %d over the alphabet, least significant first) mode=%s cap=65535 rb=1 delivery=whole",
                                          g.name, (unsigned long long)code, len, g.keep, g.base->id.c_str(), g.na, mode_name(*g.base));
                    bool mine_e = false;
                    std::string w, el;
                    auto mk = [&]() { w = g.base->wire.substr(0, g.keep); uint64_t x = code; for (int i = 0; i < len; i++) { w += g.alpha[x % g.na]; x /= g.na; } el.assign(w.size(), (char)E_TAIL); };
                    if (mine_w) { mk(); Delivery d; exec_bad(c, *g.base, K_GARBAGE, 0, w, el, d, 1, 65535, len); }
                    mine_e = c.begin("E-%s code=%llu len=%d (base %zu bytes of %s + digits of code in base %d over the alphabet, least significant first) mode=%s cap=65535 rb=8192 delivery=one-byte-at-a-time",
                                     g.name, (unsigned long long)code, len, g.keep, g.base->id.c_str(), g.na, mode_name(*g.base));
                    if (mine_e) { mk(); Delivery d; d.every = true; exec_bad(c, *g.base, K_GARBAGE, 0, w, el, d, RB_BIG, 65535, len + 100); }
                }
            }
    }
    tick(c, "E7");
    // E6 header block larger than / just fitting the receive buffer
    for (unsigned cap : {5200u, 8191u, 65535u})
        for (int start : {0, 2}) {
            Msg base = build(start, {0}, {F_CL, 5, 0}, 1, false);
            size_t fixed = base.hdr_len + strlen("X-Long: \r\n");
            std::vector<long> Hs;      // header block sizes
            for (long d = -3; d <= 3; d++) { Hs.push_back((long)cap - 5120 + d); Hs.push_back((long)cap + d); Hs.push_back((long)cap - 1024 + d); }
            Hs.push_back(cap / 2); Hs.push_back(4096); Hs.push_back(4097); Hs.push_back(cap + 5000L);
            for (long H : Hs) {
                if (H < (long)fixed) continue;
                size_t vlen = H - fixed;
                for (int dl = 0; dl < 4; dl++) {       // whole (recv takes <= 4096), 1000-byte fragments, 4095-byte fragments, one byte at a time
                    if (dl == 3 && !(thorough || H < 12000)) continue;
                    if (!c.begin("E-oversize base=%s + header \"X-Long: <%zu x 'a'>\" before the terminator: header block %ld bytes, cap=%u mode=%s rb=8192 delivery=%s",
                                 base.id.c_str(), vlen, H, cap, mode_name(base), dl == 0 ? "whole" : dl == 1 ? "fragments-of-1000" : dl == 2 ? "fragments-of-4095" : "one-byte-at-a-time")) continue;
                    Msg m = base; size_t at = m.hdr_len - 2;
                    std::string line = "X-Long: " + std::string(vlen, 'a') + "\r\n";
                    m.wire.insert(at, line); m.el.insert(at, std::string(line.size(), (char)E_HVAL)); m.hdrs.push_back({"X-Long", std::string(vlen, 'a')});
                    m.hdr_len += line.size(); m.msg_len += line.size(); m.plan = lookup_plan(m.hdrs);
                    Delivery d; std::vector<int> cuts;
                    if (dl == 3) d.every = true;
                    else if (dl) { int fs = dl == 1 ? 1000 : 4095; for (int p = fs; p < (int)m.wire.size() && d.n < 40; p += fs) d.p[d.n++] = p; }
                    Result r; run(m.wire, d, m.req ? M_SERVER_REQ : M_CLIENT_RESP, Verb::GET, cap, RB_BIG, 16, &m.plan, r);
                    uint64_t o;
                    if (r.overrun) { c.fail("endless-loop", "step bound exceeded (%llu calls)", (unsigned long long)r.calls); o = 1; }
                    else if (r.rh == 0 && (unsigned long)H >= cap) { c.fail("oversized-header-accepted", "header block of %ld bytes accepted into a %u byte buffer", H, cap); o = 2; }
                    else if (r.rh == 0) o = check_valid(c, m, r, RB_BIG);
                    else o = 10 + (r.rh < 0);
                    c.cls(seqx::mix(seqx::mix(seqx::mix(100 + K_OVERSIZE, cap), (H >= (long)cap) * 4 + (H > (long)cap - 5120) * 2 + (H > 4096)), dl * 100 + o));
                }
            }
        }
    // E8 header COUNT around the buffer limit: N minimal headers "hN:\r\n"-style (text grows up, 8-byte index entries grow down)
    for (unsigned cap : {8191u, 65535u})
        for (int start : {1, 3}) {
            Msg base = build(start, {}, {F_NONE, 0, 0}, 0, false);
            // text 4 bytes + index 8 bytes per header "a:\r\n"
            long nmax = ((long)cap - (long)base.hdr_len) / 12;
            for (long N = nmax - (thorough ? 12 : 4); N <= nmax + (thorough ? 12 : 4); N++) {
                for (int dl = 0; dl < 2; dl++) {
                    if (!c.begin("E-manyhdr base=%s + %ld headers \"a:\\r\\n\" (12 bytes of buffer each), cap=%u mode=%s delivery=%s", base.id.c_str(), N, cap, mode_name(base), dl ? "fragments-of-1000" : "whole")) continue;
                    std::string w = base.wire.substr(0, base.hdr_len - 2); for (long i = 0; i < N; i++) w += "a:\r\n"; w += "\r\n";
                    Delivery d; if (dl) for (int p = 1000; p < (int)w.size() && d.n < 40; p += 1000) d.p[d.n++] = p;
                    Result r; run(w, d, base.req ? M_SERVER_REQ : M_CLIENT_RESP, Verb::GET, cap, RB_BIG, 16, nullptr, r);
                    uint64_t o = 10 + (r.rh < 0);
                    if (r.overrun) { c.fail("endless-loop", "step bound exceeded"); o = 1; }
                    else if (r.rh == 0) {
                        bool ok = r.hdrs.size() == (size_t)N; for (auto& kv : r.hdrs) if (kv.first != "a" || !kv.second.empty()) ok = false;
                        if (!ok) c.fail("header-multimap-mismatch", "%zu headers parsed of %ld identical \"a:\" headers, or wrong content", r.hdrs.size(), N);
                        if (!r.body.empty() || r.last_rc != 0) c.fail("body-bytes-mismatch", "empty body expected, got %zu bytes rc=%zd", r.body.size(), r.last_rc);
                        o = 0;
                    }
                    c.cls(seqx::mix(seqx::mix(100 + K_MANYHDR, cap), (N > nmax) * 100 + dl * 10 + o));
                }
            }
        }
}


// ---------------------------------------------------------------------------------------------------------------
// D: writer / reader pairing. The body goes through Message::write()/writev() (BodyWriteStream or ChunkedBodyWriteStream)
// into a capturing stream in every split into 1..3 calls; the captured bytes are then parsed and read back.
// ---------------------------------------------------------------------------------------------------------------
struct WCase { bool req; bool chunked; size_t n; int a, b; int how; };   // pieces [0,a) [a,b) [b,n); how 0 = write() per piece, 1 = one writev() of the pieces

static bool produce(const WCase& w, const std::string& payload, std::string& captured, std::string& err) {
    static char* wb; if (!wb) wb = (char*)malloc(65535);
    memset(wb, 0xDD, 65535);
    MockStream cs; cs.limit = 100000;
    size_t cut[4] = {0, (size_t)w.a, (size_t)w.b, w.n}; struct iovec iov[3]; int niov = 0;
    for (int k = 0; k < 3; k++) if (cut[k + 1] > cut[k]) { iov[niov].iov_base = (void*)(payload.data() + cut[k]); iov[niov].iov_len = cut[k + 1] - cut[k]; niov++; }
    auto body = [&](Message& m) -> bool {
        if (w.how == 1) { if (niov) { ssize_t rc = m.writev(iov, niov); if (rc != (ssize_t)w.n) { err = "writev rc"; return false; } } }
        else for (int k = 0; k < niov; k++) { ssize_t rc = m.write(iov[k].iov_base, iov[k].iov_len); if (rc != (ssize_t)iov[k].iov_len) { err = "write rc"; return false; } }
        if (m.send() < 0) { err = "send()"; return false; }
        return true;
    };
    if (w.req) {
        TReq rq(wb, 65535, Verb::POST, "http://h/a?b=c");
        if (w.chunked) rq.headers.insert("Transfer-Encoding", "chunked"); else rq.headers.content_length(w.n);
        if (rq.sh(&cs) < 0) { err = "send_header"; return false; }
        if (!body(rq)) return false;
    } else {
        TResp rs(wb, 65535); rs.reset(&cs, false); rs.set_result(200); rs.keep_alive(true);
        if (w.chunked) rs.headers.insert("Transfer-Encoding", "chunked"); else rs.headers.content_length(w.n);
        if (!body(rs)) return false;
    }
    captured = cs.out;
    return true;
}

static void enum_writer(seqx::Ctx& c, bool thorough) {
    tick(c, "F");
    std::vector<size_t> sizes = {0, 1, 2, 5, 16}; if (thorough) { sizes.push_back(33); } sizes.push_back(4100);
    for (int req = 0; req < 2; req++) for (int chunked = 0; chunked < 2; chunked++) for (size_t n : sizes) {
        std::string payload = make_payload(n, 3);
        std::vector<int> cutpos; for (size_t p = 0; p <= n; p++) if (n <= 40 || p <= 2 || n - p <= 2 || (p >= 4094 && p <= 4097)) cutpos.push_back((int)p);
        for (int how = 0; how < 2; how++)
            for (size_t ia = 0; ia < cutpos.size(); ia++) for (size_t ib = ia; ib < cutpos.size(); ib++) {
                int a = cutpos[ia], b = cutpos[ib];
                // non-empty pieces only: canonical forms  a=b=n (1 piece), a<b=n (2 pieces), 0<a<b<n (3 pieces); n=0: no call at all
                bool one = a == (int)n && b == (int)n, two = a > 0 && a < (int)n && b == (int)n, three = a > 0 && a < b && b < (int)n;
                if (!(one || two || three)) continue;
                WCase w{(bool)req, (bool)chunked, n, a, b, how};
                // reader side: whole, one byte at a time, every single cut x read sizes {1, big}. The cut positions are enumerated from
                // the length a plain reference encoder gives (the case itself uses the bytes the library really wrote).
                size_t hl = (req ? strlen("POST /a?b=c HTTP/1.1\r\nHost: h\r\n") : strlen("HTTP/1.1 200 OK\r\n")) + strlen("Connection: keep-alive\r\n\r\n")
                          + (chunked ? strlen("Transfer-Encoding: chunked\r\n") : strlen("Content-Length: \r\n") + std::to_string(n).size());
                size_t bl = n;
                if (chunked) { bl = 5; size_t pc[3] = {(size_t)a, (size_t)(b - a), n - b}; if (how == 1) { pc[0] = n; pc[1] = pc[2] = 0; }
                               for (size_t x : pc) if (x) { char hb[24]; bl += snprintf(hb, sizeof hb, "%zx", x) + 4 + x; } }
                size_t len = hl + bl;
                std::vector<int> cuts = {-1, 0};
                for (size_t q = 1; q < len; q++) if (n <= 40 || q <= hl + 12 || len - q <= 12 || (q >= 4094 && q <= 4098) || (q >= hl + 4094 && q <= hl + 4098)) cuts.push_back((int)q);
                for (size_t rb : {(size_t)(n > 1000 ? 7 : 1), (size_t)RB_BIG}) for (int cut : cuts) {
                    if (!c.begin("D-writer %s %s payload=%zu bytes written as pieces [0,%d)[%d,%d)[%d,%zu) via %s; read back: rb=%zu delivery=%s cut=%d",
                                 req ? "Request(POST http://h/a?b=c)" : "Response(200)", chunked ? "Transfer-Encoding:chunked" : "Content-Length", n, a, a, b, b, n,
                                 how ? "one writev()" : "write() per non-empty piece", rb, cut == -1 ? "whole" : cut == 0 ? "one-byte-at-a-time" : "cuts", cut)) continue;
                    std::string cap, err;
                    if (!produce(w, payload, cap, err)) { c.fail("writer-failed", "%s", err.c_str()); continue; }
                    if (cap.size() != len) c.fail("writer-wire-length", "library wrote %zu bytes, reference encoding has %zu: \"%s\"", cap.size(), len, esc(cap, 300).c_str());
                    Delivery d; if (cut == 0) d.every = true; else if (cut > 0) { d.n = 1; d.p[0] = cut; }
                    Result r; run(cap, d, req ? M_SERVER_REQ : M_CLIENT_RESP, Verb::POST, 65535, rb, n + 8, nullptr, r);
                    uint64_t o = 0;
                    if (r.overrun || r.endless) { c.fail("endless-loop", "step bound exceeded"); o = 1; }
                    else if (r.rh != 0) { c.fail("written-message-rejected", "receive_header() = %d for \"%s\"", r.rh, esc(cap, 200).c_str()); o = 2; }
                    else {
                        if (r.body != payload) { c.fail("written-body-read-back-differs", "read %zu bytes, wrote %zu; wire \"%s\"", r.body.size(), n, esc(cap, 300).c_str()); o = 3; }
                        else if (r.last_rc != 0) { c.fail("end-of-body-not-reported", "read() = %zd after the payload", r.last_rc); o = 4; }
                        if (req && (r.verb != Verb::POST || r.target != "/a?b=c" || r.version != "1.1")) { c.fail("start-line-mismatch", "written request line read back as verb=%d target=%s", (int)r.verb, esc(r.target).c_str()); o = 5; }
                        if (!req && (r.status != 200 || r.reason != "OK" || r.version != "1.1")) { c.fail("start-line-mismatch", "written status line read back as %d %s", r.status, esc(r.reason).c_str()); o = 5; }
                        size_t want = req ? 3 : 2; bool hok = r.hdrs.size() == want;       // Host (request), framing header, Connection: keep-alive
                        for (auto& kv : r.hdrs) {
                            if (kv.first == "Host") hok = hok && kv.second == "h";
                            else if (kv.first == "Connection") hok = hok && kv.second == "keep-alive";
                            else if (kv.first == "Content-Length") hok = hok && !chunked && kv.second == std::to_string(n);
                            else if (kv.first == "Transfer-Encoding") hok = hok && chunked && kv.second == "chunked";
                            else hok = false;
                        }
                        if (!hok) { c.fail("header-multimap-mismatch", "written headers read back as %zu headers; wire \"%s\"", r.hdrs.size(), esc(cap, 200).c_str()); o = 6; }
                    }
                    c.cls(seqx::mix(seqx::mix(seqx::mix(200 + req * 2 + chunked, one ? 1 : two ? 2 : 3), how * 10 + (rb != RB_BIG)), seqx::mix(cut <= 0 ? cut : (cut > 0 && d.n ? 5 + (size_t)d.p[0] * 64 / (cap.size() + 1) : 4), o + 10 * std::min<size_t>(n, 6))));
                }
            }
    }
    // D0: a zero-length write() among the calls (IStream::write(buf, 0) is a legal call that writes nothing)
    for (int req = 0; req < 2; req++) for (int chunked = 0; chunked < 2; chunked++) for (int where = 0; where < 3; where++) {
        if (!c.begin("D0-zero-length-write %s %s payload=5 bytes: write(2 bytes) write(3 bytes) with an extra write(buf,0) %s; read back whole, rb=8192",
                     req ? "Request(POST http://h/a?b=c)" : "Response(200)", chunked ? "Transfer-Encoding:chunked" : "Content-Length", where == 0 ? "first" : where == 1 ? "in the middle" : "last")) continue;
        static char* wb; if (!wb) wb = (char*)malloc(65535);
        std::string payload = make_payload(5, 3); MockStream cs; cs.limit = 100000; std::string err;
        auto body = [&](Message& m) { size_t off = 0; const size_t pc[2] = {2, 3};
            for (int k = 0; k < 3; k++) { if (k == where) { if (m.write(payload.data(), 0) != 0) err = "write(buf,0) != 0"; } if (k < 2) { if (m.write(payload.data() + off, pc[k]) != (ssize_t)pc[k]) err = "write rc"; off += pc[k]; } }
            if (m.send() < 0) err = "send()"; };
        if (req) { TReq rq(wb, 65535, Verb::POST, "http://h/a?b=c"); if (chunked) rq.headers.insert("Transfer-Encoding", "chunked"); else rq.headers.content_length(5); if (rq.sh(&cs) < 0) err = "send_header"; body(rq); }
        else { TResp rs(wb, 65535); rs.reset(&cs, false); rs.set_result(200); if (chunked) rs.headers.insert("Transfer-Encoding", "chunked"); else rs.headers.content_length(5); body(rs); }
        if (!err.empty()) { c.fail("writer-failed", "%s", err.c_str()); continue; }
        Delivery d; Result r; run(cs.out, d, req ? M_SERVER_REQ : M_CLIENT_RESP, Verb::POST, 65535, RB_BIG, 16, nullptr, r);
        if (r.rh != 0 || r.body != payload || r.last_rc != 0)
            c.fail("zero-length-write-changes-the-body", "rh=%d, read back %zu of 5 bytes; wire \"%s\"", r.rh, r.body.size(), esc(cs.out, 300).c_str());
        c.cls(seqx::mix(300 + req * 2 + chunked, where * 2 + (r.body == payload)));
    }
}

//@@TAIL
#ifdef C13_RXBUF_NONUL
// Separate target: request parsing with a receive buffer that contains no NUL byte anywhere (exact-size heap block filled with 0xDD).
static void seqx_enumerate(seqx::Ctx& c, bool thorough) {
    set_log_output(log_output_null); set_log_output_level(ALOG_FATAL + 1);
    const std::vector<size_t> RB1 = {RB_BIG};
    for (int start : {0, 1}) for (unsigned cap : {65535u, 8191u}) {
        Msg m = build(start, {0}, {F_CL, 5, 0}, 1, false);
        layer_cuts(c, m, 0, RB1, cap, false, "N-rxbuf-without-NUL", 400);
    }
    // control: responses do not go through the same code
    Msg r = build(2, {0}, {F_CL, 5, 0}, 1, false);
    layer_cuts(c, r, 1, RB1, 65535, false, "N-rxbuf-without-NUL", 400);
}
SEQX_MAIN("C13", "http_rxbuf_nonul", "requests parsed from an exact-size receive buffer that holds no NUL byte (2 request messages x 2 buffer sizes x {whole, one byte at a time}); responses with every single cut as control")
#else
static void seqx_enumerate(seqx::Ctx& c, bool thorough) {
    set_log_output(log_output_null); set_log_output_level(ALOG_FATAL + 1);
    bool dbg = getenv("C13_COUNT") != nullptr; uint64_t k0 = c.counter;
    enum_valid(c, thorough);  if (dbg) fprintf(stderr, "valid  %llu\n", (unsigned long long)(c.counter - k0)); k0 = c.counter;
    enum_writer(c, thorough); if (dbg) fprintf(stderr, "writer %llu\n", (unsigned long long)(c.counter - k0)); k0 = c.counter;
    enum_bad(c, thorough);    if (dbg) fprintf(stderr, "bad    %llu\n", (unsigned long long)(c.counter - k0));
}

SEQX_MAIN("C13", "http", "one case = one input byte string + one delivery (fragment boundaries) + one body-read buffer size, run through real Request (server mode) / Response (client mode) objects on a scripted stream. Valid messages: start line x <=3 pool headers (duplicates, mixed case, empty value, no space after colon) x framing {none, Content-Length 0/1/5, 9 chunk layouts incl. [], [1], [0x10], [3,2], [1,4100], extension, trailer, leading zeros, close-delimited 0/1/5, HEAD} x position/case of the framing header x pipelined tail; deliveries: whole, one byte at a time, every choice of <=2 (quick) / <=3 (thorough, first two messages of each framing kind) cuts at every position, ALL 2^(n-1) fragmentations of the 18/19-byte messages, all fragmentations of an 8/12-position window around every CRLF/terminator/chunk-size line and of whole short chunked bodies; read sizes {1,2,8192} (7 instead of 1 for the 4100-byte chunk when more than one cut); smallest workable receive buffer as an extra class. Writer/reader: body through Message::write/writev (fixed-length and chunked writer) in every split into 1..3 calls, read back under whole / bytewise / every single cut. Bad input: every truncation point, chunk-size digits replaced, one CR or LF deleted, chunk size larger than the data, line without colon, every byte string up to 4/6 bytes over an 8-symbol alphabet as message, 3/5 bytes after a start line, 5/7 bytes over a 7-symbol alphabet as chunked body, header block and header count around the buffer limit. Oracle: generator's expectation (start line, header multimap incl. case-insensitive lookups, payload, read() return codes, end-of-body twice) for valid input; error/EOF within a step bound and body made only of input bytes (payload prefix for truncations) for bad input; ASan on exact-size receive and read buffers. distinct = hash(layer, request/response, framing kind, multiset of syntactic elements the cuts fall in (start line / header name / separator / value / CRLF / between CR and LF / terminator / chunk-size / extension / data / data CRLF / last chunk / trailer / final CRLF / tail), read size class, kind of bad input, outcome class)")
#endif
