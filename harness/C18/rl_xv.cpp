// C18 rl_xv: RangeLock under the controlled multi-vCPU scheduler (+ every arrival order on one vCPU).
// ops per photon thread: L<r> lock(range r) via lock()/LockHandle   T<r> try_lock_wait loop (range API)   A<r> adjust_range(held handle, range r)
//                        U unlock the held range     y yield
#define protected public
#define private public
#include <photon/common/range-lock.h>
#undef protected
#undef private
#include <photon/thread/thread.h>
#include "mv_prog.h"
#include <string.h>
using namespace photon;

static const uint64_t M = ~0ull;
static const struct { uint64_t off, len; } RANGES[] = {
    {0, 2}, {1, 2}, {2, 2}, {0, 4}, {1, 1}, {1, 0}, {M - 2, 1}, {M - 3, 8}, {0, M}, {3, 1},
};
struct Held { uint64_t off, end; bool on; };
struct St {
    RangeLock rl; mvprog::Prog prog; Held held[16]; bool waiting[16] = {false}; std::string log;
};
static St* G;
static uint64_t sat_end(uint64_t off, uint64_t len) { return off + len < off ? M : off + len; }

static void occupy(int me, uint64_t off, uint64_t len, const char* how) {
    uint64_t end = sat_end(off, len);
    for (int k = 0; k < 16; k++) if (k != me && G->held[k].on) {
        uint64_t lo = std::max(off, G->held[k].off), hi = std::min(end, G->held[k].end);
        if (lo < hi) pmc_violation("overlap", "%s: thread %d holds [%llu,%llu) while thread %d holds [%llu,%llu)", how, me, (unsigned long long)off,
                                   (unsigned long long)end, k, (unsigned long long)G->held[k].off, (unsigned long long)G->held[k].end);
    }
    G->held[me] = {off, end, true};
}

static void body(mvprog::PT& p) {
    int me = p.idx; RangeLock::LockHandle* h = nullptr; uint64_t hoff = 0, hlen = 0; bool by_range = false;
    for (size_t i = 0; i < p.ops.size(); i++) {
        char op = p.ops[i];
        if (op == 'y') { thread_yield(); continue; }
        if (op == 'p') { int npad = pmc_choose(3, PMC_PROG, 0, "pad yields"); for (int kk = 0; kk < npad; kk++) thread_yield(); continue; }   // every arrival order on one vCPU
        if (op == 'U') {
            mv_yield("holding");
            G->held[me].on = false;
            if (by_range) G->rl.unlock(hoff, hlen); else G->rl.unlock(h);
            h = nullptr; G->log += char('a' + me); G->log += 'u'; p.result += "u";
            continue;
        }
        if (op == 'M') {      // one thread holds three adjacent ranges [0,2) [2,4) [4,6); a ranged unlock(1,5) starts inside the first and covers
                              // the other two: those must be released (and their waiters woken), the partially covered one stays held
            G->waiting[me] = true;
            for (uint64_t o0 = 0; o0 < 6; o0 += 2) for (int guard = 0;; guard++) { uint64_t o = o0, l = 2; if (G->rl.try_lock_wait(o, l) == 0) break; if (guard > 50) pmc_violation("try_lock_wait-spins", "more than 50 failed try_lock_wait rounds"); }
            G->waiting[me] = false;
            occupy(me, 0, 6, "try_lock_wait x3");
            mv_yield("holding");
            G->held[me] = {0, 2, true};
            G->rl.unlock(1, 5);
            if (G->rl.m_index.size() > 1 + 1) { /* other threads may have inserted their own range meanwhile */ }
            mv_yield("holding");
            G->held[me].on = false;
            G->rl.unlock(0, 2);
            G->log += char('a' + me); G->log += 'M'; p.result += "M";
            continue;
        }
        int r = p.ops[++i] - '0';
        if (p.ops[i] == '?') { static const int NR = sizeof RANGES / sizeof RANGES[0]; r = pmc_choose(NR, PMC_PROG, 0, "range"); G->log += char('0' + r); }
        uint64_t off = RANGES[r].off, len = RANGES[r].len;
        if (op == 'L') {
            G->waiting[me] = true;
            h = G->rl.lock(off, len);
            G->waiting[me] = false; by_range = false; hoff = off; hlen = len;
            occupy(me, off, len, "lock");
            G->log += char('a' + me); G->log += 'L'; p.result += "L";
        } else if (op == 'T') {
            G->waiting[me] = true;
            for (int guard = 0;; guard++) {
                uint64_t o = off, l = len;
                if (G->rl.try_lock_wait(o, l) == 0) break;
                if (guard > 50) pmc_violation("try_lock_wait-spins", "more than 50 failed try_lock_wait rounds");
            }
            G->waiting[me] = false; by_range = true; hoff = off; hlen = len;
            occupy(me, off, len, "try_lock_wait");
            G->log += char('a' + me); G->log += 'T'; p.result += "T";
        } else if (op == 'A') {
            int rc = G->rl.adjust_range(h, off, len);
            if (rc == 0) { G->held[me].on = false; occupy(me, off, len, "adjust_range"); hoff = off; hlen = len; }
            G->log += char('a' + me); G->log += rc == 0 ? 'A' : 'x'; p.result += rc == 0 ? "A" : "x";
        }
    }
}

static void on_deadlock(const char* dump) {
    std::string w; for (int k = 0; k < 16; k++) if (G->waiting[k]) { w += char('0' + k); }
    pmc_violation("waiter-stuck", "thread(s) %s wait for a range forever although every holder unlocks: %s", w.c_str(), dump);
}

void pmc_run(const char* config) {
    St st; G = &st; for (auto& h : st.held) h.on = false;
    char prog[128]; if (sscanf(config, "%127s", prog) < 1) pmc_broken("bad config");
    st.prog.parse(prog);
    pmc_window(0);
    mv_init(); mvp::use_fast_stacks(true);
    mv_on_deadlock = on_deadlock;
    st.prog.run(body);
    if (!st.rl.m_index.empty()) pmc_violation("index-not-empty", "%zu ranges left in the index after every holder unlocked", st.rl.m_index.size());
    pmc_obs("%s %s", st.prog.results().c_str(), st.log.c_str());
    mv_fini(); G = nullptr;
}

static const PmcConfig CFG[] = {
    // ranges: 0=(0,2) 1=(1,2) 2=(2,2) 3=(0,4) 4=(1,1) 5=(1,0) 6=(M-2,1) 7=(M-3,8 saturating) 8=(0,M) 9=(3,1)
    {"L0U|L1U",            3, {2,3}, {0,0}, {0,0}, {0,0}, "partially overlapping"},
    {"L0U|L2U",            3, {1,2}, {0,0}, {0,0}, {0,0}, "adjacent: never conflict"},
    {"L3U|L4U",            3, {2,3}, {0,0}, {0,0}, {0,0}, "nested"},
    {"L3U|L5U",            3, {1,2}, {0,0}, {0,0}, {0,0}, "zero-length inside"},
    {"L7U|L6U",            3, {1,2}, {0,0}, {0,0}, {0,0}, "saturating end"},
    {"L8U|L7U",            3, {1,2}, {0,0}, {0,0}, {0,0}, "whole space"},
    {"L0U,L1U|L2U",        3, {1,2}, {0,0}, {0,0}, {0,0}, "three threads, chain of overlaps"},
    {"L3U|L0U|L2U",        3, {1,2}, {0,0}, {0,0}, {0,0}, "one big range blocks two; its unlock must wake both"},
    {"T0U|T1U",            3, {1,2}, {0,0}, {0,0}, {0,0}, "try_lock_wait + unlock(offset,len)"},
    {"T3U|L4U",            3, {1,2}, {0,0}, {0,0}, {0,0}, ""},
    {"M|L2U",              3, {1,2}, {0,0}, {0,0}, {0,0}, "ranged unlock(offset,len) covering two held ranges and starting inside a third: the covered ones are released, their waiter proceeds"},
    {"M,pL2U,pL9U",        3, {0,0}, {0,0}, {0,0}, {0,0}, "the same on one vCPU, every arrival order"},
    {"L0A3U|L2U",          3, {1,2}, {0,0}, {0,0}, {0,0}, "grow into a neighbour"},
    {"L3A0U|L2U",          3, {1,2}, {0,0}, {0,0}, {0,0}, "shrink then the neighbour fits"},
    {"L4A1U|L0U,L9U",      2, {1,2}, {0,0}, {0,0}, {0,0}, "move"},
    {"L0U,L1U,L4U",        3, {0,0}, {0,0}, {0,0}, {0,0}, "one vCPU"},
    {"L?U,L?yU,yL?U",      3, {0,0}, {0,0}, {0,0}, {0,0}, "one vCPU, every triple of ranges from the alphabet"},
    {"L?A?U,L?U",          3, {0,0}, {0,0}, {0,0}, {0,0}, "one vCPU, every (range, adjusted range, other range)"},
    {"L?yA?yU,L?yyU",      3, {0,0}, {0,0}, {0,0}, {0,0}, "one vCPU: adjust while the other range is held (every triple)"},
    {"L?yA?yU,L?yyU,L?yyU",2, {0,0}, {0,0}, {0,0}, {0,0}, "adjust between two held neighbours (every quadruple)"},
    {"L?U|L?U",            3, {1,1}, {0,0}, {0,0}, {0,0}, "two vCPUs, every pair of ranges, one preemption"},
    {"L?A?U|L?U",          2, {1,1}, {0,0}, {0,0}, {0,0}, "two vCPUs, adjust against every other range"},
    {"L3U,L0U|L1U,L2U",    2, {1,2}, {0,0}, {0,0}, {0,0}, "four threads"},
};
const PmcConfig* pmc_configs(int* n) { *n = sizeof CFG / sizeof CFG[0]; return CFG; }
const char* pmc_property(void) { return "C18"; }
const char* pmc_target(void) { return "rl_xv"; }
int main(int argc, char** argv) { return pmc_main(argc, argv); }
