// C19 oc_xv: ObjectCache under the controlled multi-vCPU scheduler.
// ops per photon thread (k = key digit):  a<k> acquire (ctor succeeds)   s<k> acquire with a slow ctor (yields inside)
//   f<k> acquire with a failing ctor   F<k> acquire with a slow failing ctor (yields inside, then fails)   r<k> release   R<k> release(recycle=true, destroy=true)   M<k> release(recycle=true, destroy=false)
//   i<t> thread_interrupt(program thread t, EINTR) if it is still running
//   e call expire() (what the cache's timer thread does)   t sleep 150us (> lifespan)   y yield
#define protected public
#define private public
#include <photon/common/expirecontainer.h>
#undef protected
#undef private
#include <photon/thread/thread.h>
#include "mv_prog.h"
#include <string.h>
using namespace photon;

struct Obj;
struct St {
    ObjectCache<int, Obj*>* oc = nullptr; mvprog::Prog prog;
    int ctor_running[4] = {0}, ctor_calls[4] = {0}, dtor_calls[4] = {0};
    Obj* live[4] = {nullptr};            // object most recently constructed for the key and not destroyed
    int rec_in[4] = {0}, rec_done[4] = {0};   // recycling releases in flight / completed per key (two recyclers of one key: who gets the object is not specified)
    int borrowed[4] = {0};               // references the harness threads hold per key
    std::string log;
    char arena[32][64]; int narena = 0;  // objects live here and are poisoned on destruction (never reused)
};
static St* G;
struct Obj {
    int key; int magic;
    Obj(int k) : key(k), magic(0x600d) {}
    ~Obj() {
        if (magic != 0x600d) pmc_violation("double-destroy", "object of key %d destroyed twice", key);
        if (G->borrowed[key] > 0 && G->live[key] == this) pmc_violation("destroyed-while-borrowed", "object of key %d destroyed while %d reference(s) are held", key, G->borrowed[key]);
        magic = 0xdead; G->dtor_calls[key]++;
        if (G->live[key] == this) G->live[key] = nullptr;
    }
    static void* operator new(size_t) { if (G->narena >= 32) pmc_broken("arena full"); return G->arena[G->narena++]; }
    static void operator delete(void* p) { mv_poison(p, 64); }
};

static Obj* make(int k, int mode) {       // mode 0 ok, 1 slow, 2 fail
    if (++G->ctor_running[k] != 1) pmc_violation("concurrent-construction", "constructor for key %d running %d times at once", k, G->ctor_running[k]);
    G->ctor_calls[k]++;
    if (mode == 1 || mode == 3) { mv_yield("in ctor"); thread_yield(); mv_yield("in ctor 2"); }
    Obj* o = nullptr;
    if (mode < 2) { o = new Obj(k); G->live[k] = o; }
    G->ctor_running[k]--;
    return o;
}

static void body(mvprog::PT& p) {
    int me = p.idx; Obj* mine[4] = {nullptr};
    for (size_t i = 0; i < p.ops.size(); i++) {
        char op = p.ops[i];
        if (op == 'y') { thread_yield(); continue; }
        if (op == 'p') { int npad = pmc_choose(3, PMC_PROG, 0, "pad yields"); for (int kk = 0; kk < npad; kk++) thread_yield(); continue; }   // every arrival order on one vCPU
        if (op == 'q') { if (pmc_choose(2, PMC_PROG, 0, "pad yield")) thread_yield(); continue; }
        if (op == 't') { thread_usleep(150); continue; }
        if (op == 'e') { G->oc->expire(); continue; }
        if (op == 'i') { int k = p.ops[++i] - '0'; if (k >= (int)G->prog.pts.size()) continue; auto& q = G->prog.pts[k]; G->log += 'i'; G->log += q.done ? 'd' : 'r'; if (q.th && !q.done) thread_interrupt(q.th, EINTR); continue; }
        int k = p.ops[++i] - '0';
        if (op == 'a' || op == 's' || op == 'f' || op == 'F') {
            int mode = op == 'a' ? 0 : op == 's' ? 1 : op == 'f' ? 2 : 3;
            int calls0 = G->ctor_calls[k];
            Obj* o = G->oc->acquire(k, [&] { return make(k, mode); });
            if (o) {
                if (o->magic != 0x600d) pmc_violation("acquired-dead-object", "acquire(%d) returned an object that was already destroyed", k);
                if (G->live[k] != o) pmc_violation("two-live-objects", "acquire(%d) returned %p but the live object of the key is %p", k, (void*)o, (void*)G->live[k]);
                G->borrowed[k]++; mine[k] = o;
            } else if (mode < 2 && G->ctor_calls[k] == calls0) {
                // null without having run our (succeeding) constructor: only legal right after somebody else's failure (cooldown 0 => retried) -- never here
                pmc_violation("acquire-null-without-failure", "acquire(%d) with a succeeding constructor returned null and did not run it", k);
            }
            G->log += char('a' + me); G->log += o ? '1' : '0'; p.result += o ? "1" : "0";
            mv_yield("after acquire");
        } else if (op == 'r' || op == 'R' || op == 'M') {
            if (!mine[k]) continue;                 // nothing borrowed (acquire failed)
            if (mine[k]->magic != 0x600d) pmc_violation("borrowed-object-destroyed", "key %d: object destroyed while thread %d still holds its reference", k, me);
            G->borrowed[k]--; Obj* o = mine[k]; mine[k] = nullptr;
            if (op == 'r') G->oc->release(k);
            else {
                int done0 = G->rec_done[k]; G->rec_in[k]++;
                Obj* back = G->oc->release(k, true, op == 'R');
                bool contested = G->rec_in[k] > 1 || G->rec_done[k] != done0;
                G->rec_in[k]--; G->rec_done[k]++;
                // a recycling release returns only after every other holder released
                if (G->borrowed[k] > 0 && G->live[k] == nullptr) pmc_violation("recycle-returned-early", "release(recycle) of key %d returned while %d other reference(s) are still held", k, G->borrowed[k]);
                if (op == 'M' && contested && !back) { /* another recycler of the same key took it */ }
                else if (op == 'M') { if (back != o) pmc_violation("recycle-wrong-object", "release(recycle, !destroy) returned %p, expected %p", (void*)back, (void*)o); if (G->live[k] == o) G->live[k] = nullptr; delete back; }
            }
            G->log += char('a' + me); G->log += op; p.result += "r";
        }
    }
}

static void on_deadlock(const char* dump) { pmc_violation("deadlock", "object cache user blocked forever: %s", dump); }

void pmc_run(const char* config) {
    St st; G = &st;
    char prog[128]; char extra[24] = "";
    if (sscanf(config, "%127[^:]:%23s", prog, extra) < 1) pmc_broken("bad config");
    pmc_window(1);     // generated programs are explorer choices: each token is a whole acquire..release episode
    if (st.prog.parse_or_generate(prog, {"a0qr0", "s0qr0", "f0r0", "F0r0", "a0qR0", "a0qM0", "a0ter0", "e", "a1qr1", "i0", "i1"})) st.log = st.prog.generated + " ";
    pmc_window(0);
    mv_init(); mvp::use_fast_stacks(true);
    mv_on_deadlock = on_deadlock;
    mv_time_deviations(strstr(extra, "tdev") != nullptr);
    mv_tso(strstr(extra, "tso") != nullptr); mv_switch_points(0);     // built with -DPHOTON_VERIF for the TSC hook only
    // lifespan 100us; the timer thread itself is parked (cycle 10 s): expire() runs at every acquire/release and by op 'e'
    st.prog.on_vcpu_start = [&](int os) { if (os == 0) st.oc = new ObjectCache<int, Obj*>(100, 10ull * 1000 * 1000); };
    st.prog.on_vcpu_end = [&](int os) { if (os == 0) { delete st.oc; st.oc = nullptr; } };
    st.prog.run(body);
    for (int k = 0; k < 4; k++) if (st.ctor_calls[k] && st.dtor_calls[k] > st.ctor_calls[k]) pmc_violation("more-dtors-than-ctors", "key %d", k);
    pmc_obs("%s %s c=%d,%d d=%d,%d", st.prog.results().c_str(), st.log.c_str(), st.ctor_calls[0], st.ctor_calls[1], st.dtor_calls[0], st.dtor_calls[1]);
    mv_fini(); G = nullptr;
}

// note: an acquirer whose own constructor failed may still get the object a concurrent acquirer constructed meanwhile
// (ref_acquire re-reads item->_obj after dropping the item mutex); it then holds a normal reference (f<k> is followed by r<k>).
static const PmcConfig CFG[] = {
    {"a0r0|a0r0",          3, {2,3}, {0,0}, {0,0}, {0,0}, "two acquirers of one key"},
    {"s0r0|a0r0",          3, {1,2}, {0,0}, {0,0}, {0,0}, "slow constructor, second acquirer must wait and share"},
    {"s0r0,a0r0|a0r0",     3, {1,2}, {0,0}, {0,0}, {0,0}, ""},
    {"f0r0|a0r0",          3, {1,2}, {0,0}, {0,0}, {0,0}, "failed construction with a waiter queued"},
    {"f0r0,a0r0|a0r0",     3, {1,2}, {0,0}, {0,0}, {0,0}, "failure + two successful acquirers"},
    {"a0r0t|a0r0",         3, {1,2}, {0,0}, {0,0}, {0,0}, "expiry after the lifespan vs a new acquire"},
    {"a0r0te|a0r0",        3, {1,2}, {0,0}, {0,0}, {0,0}, "explicit expire() racing with acquire"},
    {"a0R0|a0r0",          3, {1,2}, {0,0}, {0,0}, {0,0}, "recycling release waits for the other holder"},
    {"a0R0|a0r0a0r0",      3, {1,2}, {0,0}, {0,0}, {0,0}, "recycler racing with a new acquirer"},
    {"a0M0|a0r0",          3, {1,2}, {0,0}, {0,0}, {0,0}, "recycle without destroy hands the object over"},
    {"a0r0a1r1|a1r1a0r0",  3, {1,2}, {0,0}, {0,0}, {0,0}, "two keys"},
    {"F0r0,a0ter0",        3, {0,0}, {0,0}, {0,0}, {0,0}, "one vCPU: slow failing constructor with a waiter queued; the waiter succeeds and holds past the lifespan, then expire()"},
    {"pF0r0,pa0tepr0,pa0r0", 3, {0,0}, {0,0}, {0,0}, {0,0}, "... every arrival order, plus a third acquirer"},
    {"F0r0|a0ter0",        3, {1,2}, {0,0}, {0,0}, {0,0}, "failing constructor on one vCPU, successful waiter holding past the lifespan on another"},
    {"f0r0|a0ter0|a0r0",   2, {1,2}, {0,0}, {0,0}, {0,0}, ""},
    {"pa0pR0,pa0ppr0,ppi0", 3, {0,0}, {0,0}, {0,0}, {0,0}, "one vCPU: a stray interrupt lands on the recycling releaser while it waits for the other holder"},
    {"a0R0|a0yr0|yi0",     3, {1,2}, {0,0}, {0,0}, {0,0}, "... across vCPUs"},
    {"pa0pM0,pa0ppr0,ppi0", 2, {0,0}, {0,0}, {0,0}, {0,0}, ""},
    {"a0r0,a0R0|a0r0te",   2, {1,2}, {0,0}, {0,0}, {0,0}, ""},
    {"a0r0|a0r0|a0R0",     2, {1,2}, {0,0}, {0,0}, {0,0}, "three vCPUs"},
    {"a0r0,s0r0,a0R0",     3, {0,0}, {0,0}, {0,0}, {0,0}, "one vCPU"},
    {"pa0pr0,ps0pr0,pa0pR0", 3, {0,0}, {0,0}, {0,0}, {0,0}, "one vCPU, every arrival order"},
    {"pa0pr0t,pa0pr0,pepa0r0", 3, {0,0}, {0,0}, {0,0}, {0,0}, "one vCPU: expiry vs re-acquire"},
    {"pf0r0,pa0pr0,ps0r0",   3, {0,0}, {0,0}, {0,0}, {0,0}, "one vCPU: failing / slow / ok constructors"},
    // generated programs last: they take whatever budget the configs above leave
    {"gen3x1",             3, {0,0}, {0,0}, {0,0}, {0,0}, "generated: every 3-thread program of one episode each (acquire ok/slow/fail/slow-fail + release / recycle / hand over / hold past lifespan + expire, expire, other key, interrupt), every arrival order"},
    {"gen2x2",             2, {0,0}, {0,0}, {0,0}, {0,0}, "generated: 2 threads x up to 2 episodes"},
    {"gen4x1",             2, {0,0}, {0,0}, {0,0}, {0,0}, ""},
    {"gen3x2",             2, {0,0}, {0,0}, {0,0}, {0,0}, ""},
};
const PmcConfig* pmc_configs(int* n) { *n = sizeof CFG / sizeof CFG[0]; return CFG; }
const char* pmc_property(void) { return "C19"; }
const char* pmc_target(void) { return "oc_xv"; }
int main(int argc, char** argv) { return pmc_main(argc, argv); }
