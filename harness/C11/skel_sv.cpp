// C11 skel_sv: the real rpc::Skeleton (server side: per-request context moved into a worker thread, responses serialised by a per-stream
// write mutex) serving N requests that arrive on ONE scripted mock stream, one vCPU, virtual clock.
// Explorer choices: when each request arrives (with the previous one / 50 us later), how long each handler takes before it responds
// (at once / after a yield / after 30 us: responses overtake each other), and how the stream takes each response writev (at once / first
// half, yields, second half / first half, 80 us (longer than the gap to the next request), second half / short write). Oracle: the bytes that reached the stream are a sequence
// of complete responses -- valid header, the tag of one of the requests, each tag exactly once, body == f(that request's payload) -- the
// handler ran exactly once per request with that request's payload, every response_sender() call reported success, serve() returns after
// EOF only when every accepted request is finished, and (ASan, poisoned stacks) no request context is touched after its worker ended.
// After a short write the skeleton shuts the stream down: then only "nobody hangs, nothing crashes" is demanded.
#include "sv_rt.h"
#include <photon/rpc/rpc.h>
#include <photon/thread/thread.h>
#include <photon/thread/thread11.h>
#include <photon/common/iovector.h>
#include <photon/common/stream.h>
#include <vector>
#include <string>
#include <algorithm>
#include <string.h>
using namespace photon;

struct Rq { uint64_t tag; std::string payload; uint64_t at; int runs = 0; int answered = 0; int sender_ret = 1; };
struct World {
    int N = 0; std::vector<Rq> rq; std::string in; std::vector<size_t> in_end;      // request k occupies in[in_end[k-1], in_end[k])
    size_t inpos = 0; std::string out; bool shut = false, short_write = false, served = false; int writers = 0;
    std::string log;
};
static World* W;

static std::string f_of(const std::string& payload, uint64_t tag) {
    std::string r = payload; std::reverse(r.begin(), r.end()); r += char('A' + tag % 26); r += r; return r;       // 2*(len+1) bytes
}

class MockStream : public IStream {
public:
    int close() override { return 0; }
    int shutdown(ShutdownHow) override { W->shut = true; return 0; }
    uint64_t timeout() const override { return -1; }
    void timeout(uint64_t) override {}
    ssize_t read(void* buf, size_t n) override { iovec v{buf, n}; return readv(&v, 1); }
    ssize_t readv(const iovec* iov, int cnt) override {
        size_t total = 0; for (int i = 0; i < cnt; i++) total += iov[i].iov_len;
        if (total == 0) return 0;
        for (int guard = 0; ; guard++) {
            if (W->shut) { errno = ENOTCONN; return -1; }
            if (W->inpos >= W->in.size()) {
                // every request was delivered: the peer keeps the connection open until it has all its answers, then closes
                size_t done = 0; for (auto& r : W->rq) done += r.answered > 0;
                if ((int)done >= W->N || guard > 400) return 0;
                thread_usleep(10); continue;
            }
            // request k's bytes exist from its arrival time on
            int k = 0; while (W->in_end[k] <= W->inpos) k++;
            if (W->rq[k].at > sv::vnow) { thread_usleep(W->rq[k].at - sv::vnow); continue; }
            if (W->in_end[k] - W->inpos < total) pmc_broken("skeleton reads across a request boundary (%zu wanted, %zu left)", total, W->in_end[k] - W->inpos);
            size_t off = 0;
            for (int i = 0; i < cnt; i++) { memcpy(iov[i].iov_base, W->in.data() + W->inpos + off, iov[i].iov_len); off += iov[i].iov_len; }
            W->inpos += total;
            return total;
        }
    }
    ssize_t write(const void* b, size_t n) override { iovec v{(void*)b, n}; return writev(&v, 1); }
    ssize_t writev(const iovec* iov, int cnt) override {
        std::string all; for (int i = 0; i < cnt; i++) all.append((char*)iov[i].iov_base, iov[i].iov_len);
        if (W->shut) { errno = EPIPE; return -1; }
        int how = pmc_choose(4, PMC_ENV, 1, "response write: at once / half, yields, half / half, 80us, half / short write");
        if (how == 0) { W->out += all; return all.size(); }
        size_t h = all.size() / 2;
        W->writers++;
        W->out += all.substr(0, h); W->log += how == 1 ? 'y' : how == 2 ? 'z' : '!';
        if (how == 2) thread_usleep(80); else { thread_yield(); thread_yield(); thread_yield(); }
        W->writers--;
        if (how == 3) { W->short_write = true; return h; }
        if (W->shut) { errno = EPIPE; return -1; }
        W->out += all.substr(h);
        return all.size();
    }
};

static int handler(void*, iovector* req, rpc::Skeleton::ResponseSender sender, IStream*) {
    std::string payload(req->sum(), 0); req->memcpy_to(&payload[0], payload.size());
    int k = payload.empty() ? -1 : payload[0] - 'a';
    if (k < 0 || k >= W->N || W->rq[k].payload != payload) { pmc_violation("handler-got-foreign-request", "the handler was called with a payload that is no request's payload (\"%s\")", payload.c_str()); return -1; }
    World* me = W;
    W->rq[k].runs++;
    char lb[32]; snprintf(lb, sizeof lb, "handler %d delay", k);
    int d = pmc_choose(3, PMC_PROG, 0, lb);
    if (d == 1) thread_yield(); else if (d == 2) thread_usleep(30);
    if (W != me) return -1;
    W->log += char('0' + k); W->log += char('a' + d);
    std::string resp = f_of(payload, W->rq[k].tag);
    IOVector iov; iov.push_back((void*)resp.data(), resp.size());
    int r = sender(&iov);
    if (W != me) return -1;
    W->rq[k].sender_ret = r; W->rq[k].answered++;
    return 0;
}

static void on_deadlock() { pmc_violation("server-blocked-forever", "serve() or a request worker never finished (served=%d)", (int)W->served); }

// config "n<N>"
void pmc_run(const char* config) {
    World w; W = &w;
    if (sscanf(config, "n%d", &w.N) != 1) pmc_broken("bad config");
    pmc_window(0);
    sv::init();
    sv::on_deadlock = on_deadlock;
    pmc_window(1);
    uint64_t t = sv::vnow;
    for (int k = 0; k < w.N; k++) {
        Rq r; r.tag = 100 + 7 * k; r.payload = std::string(1, char('a' + k)) + std::string(2 * k + 1, char('p' + k));
        char lb[32]; snprintf(lb, sizeof lb, "request %d arrival", k);
        if (k > 0 && pmc_choose(2, PMC_ENV, 1, lb)) { t += 50; sv::register_deadline(t); }
        r.at = t;
        rpc::Header h; h.size = r.payload.size(); h.function = rpc::FunctionID(1, 1); h.tag = r.tag;
        w.in.append((char*)&h, sizeof h); w.in += r.payload;
        w.rq.push_back(r);
    }
    // request boundaries (the skeleton reads header and body separately, never across a request)
    {   std::vector<size_t> ends; size_t pos = 0;
        for (int k = 0; k < w.N; k++) { pos += sizeof(rpc::Header); pos += w.rq[k].payload.size(); ends.push_back(pos); }
        w.in_end = ends; }
    MockStream ms;
    auto sk = rpc::new_skeleton(4);
    sk->add_function(rpc::FunctionID(1, 1), rpc::Skeleton::Function(nullptr, &handler));
    sk->serve(&ms);
    w.served = true;
    pmc_window(0);
    // serve() returned: every accepted request must be finished
    for (int k = 0; k < w.N; k++) {
        Rq& r = w.rq[k];
        if (r.runs > 1) pmc_violation("request-served-twice", "the handler ran %d times for request %d", r.runs, k);
        if (r.runs == 1 && r.answered != 1) pmc_violation("serve-returned-before-request-finished", "serve() returned while the worker of request %d was still running", k);
    }
    if (w.writers) pmc_violation("serve-returned-before-request-finished", "serve() returned with %d response writes in progress", w.writers);
    if (!w.short_write) {
        for (int k = 0; k < w.N; k++) {
            if (w.rq[k].runs != 1) pmc_violation("request-not-served", "request %d: the handler ran %d times", k, w.rq[k].runs);
            if (w.rq[k].sender_ret != 0) pmc_violation("response-sender-failed", "response_sender() returned %d for request %d although the stream took every byte", w.rq[k].sender_ret, k);
        }
        size_t pos = 0; std::vector<uint64_t> seen;
        while (pos < w.out.size()) {
            if (w.out.size() - pos < sizeof(rpc::Header)) { pmc_violation("response-bytes-interleaved", "trailing %zu bytes on the wire are not a response", w.out.size() - pos); break; }
            rpc::Header h; memcpy(&h, w.out.data() + pos, sizeof h);
            const Rq* q = nullptr; for (auto& r : w.rq) if (r.tag == h.tag) q = &r;
            std::string want = q ? f_of(q->payload, q->tag) : std::string();
            if (h.magic != rpc::Header().magic || !q || h.size != want.size() || w.out.size() - pos - sizeof h < h.size || w.out.compare(pos + sizeof h, h.size, want) != 0) {
                pmc_violation("response-bytes-interleaved", "at wire offset %zu: the bytes are not one request's complete response (tag %llu, size %u)", pos, (unsigned long long)h.tag, h.size); break; }
            for (auto tg : seen) if (tg == h.tag) pmc_violation("response-sent-twice", "tag %llu answered twice", (unsigned long long)h.tag);
            seen.push_back(h.tag); pos += sizeof h + h.size;
        }
        if (pos == w.out.size() && (int)seen.size() != w.N) pmc_violation("response-missing", "%zu responses on the wire for %d requests", seen.size(), w.N);
    }
    pmc_obs("%s%s", w.log.c_str(), w.short_write ? " short" : "");
    delete sk;
    sv::fini();
    W = nullptr;
}

static const PmcConfig CFG[] = {
    {"n2", 3, {0,0}, {0,0}, {2,3}, {0,0}, "two requests on one stream: arrival x handler delays x response write splits"},
    {"n3", 3, {0,0}, {0,0}, {2,3}, {0,0}, "three requests"},
    {"n4", 2, {0,0}, {0,0}, {2,2}, {0,0}, "four requests (the worker pool holds 4 threads)"},
};
const PmcConfig* pmc_configs(int* n) { *n = sizeof CFG / sizeof CFG[0]; return CFG; }
const char* pmc_property(void) { return "C11"; }
const char* pmc_target(void) { return "skel_sv"; }
int main(int argc, char** argv) { return pmc_main(argc, argv); }
