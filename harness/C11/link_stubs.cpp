// Symbols referenced by rpc.cpp's StubPool classes (socket / TLS factories). No scenario of this harness creates a StubPool:
// these are link-only stubs; reaching one is a harness bug.
#include <photon/net/socket.h>
#include <photon/net/security-context/tls-stream.h>
#include <photon/common/alog.h>
#include <stdlib.h>
namespace photon { namespace net {
extern "C" ISocketClient* new_tcp_socket_client(IPAddr*, uint32_t) { abort(); }
extern "C" ISocketClient* new_uds_client() { abort(); }
TLSContext* new_tls_context(const char*, const char*, const char*, TLSVersion) { abort(); }
ISocketStream* new_tls_stream(TLSContext*, ISocketStream*, SecurityRole, bool) { abort(); }
LogBuffer& operator<<(LogBuffer& log, const EndPoint&) { return log; }
} }
