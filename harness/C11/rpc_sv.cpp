// C11 rpc_sv: the real rpc::Stub (out-of-order engine) over a mock stream, N concurrent callers on one vCPU, virtual clock.
// The script (explorer choices) decides: permutation of the responses on the wire, arrival time of every response header and of its
// body (immediately / after the short deadline / after the longer deadline), and one protocol fault (unknown tag, duplicate tag,
// EOF after a header, EOF inside a body, bad magic). Oracle: a successful call got f(its own request); a failed call got -1; and the mock stream
// refuses to copy response bytes into memory that does not belong to a call that is still in progress.
#include "sv_rt.h"
#include <photon/rpc/rpc.h>
#include <photon/thread/thread.h>
#include <photon/thread/thread11.h>
#include <photon/common/iovector.h>
#include <photon/common/stream.h>
#include <vector>
#include <string>
#include <algorithm>
#include <string.h>
using namespace photon;

static const uint64_t T_SHORT = 100, T_LONG = 200;
struct Seg { std::string bytes; uint64_t at; };                   // bytes arriving at absolute virtual time `at`
struct Req { uint64_t tag; uint32_t size; std::string payload; int caller; };
struct Live { char* p; size_t n; bool live; };

struct World {
    int N = 0; std::vector<uint64_t> tmo;                         // per caller timeout (0 = none)
    std::vector<Req> reqs; std::vector<Seg> segs; size_t seg = 0, segoff = 0; bool scripted = false, shut = false;
    std::vector<Live> bufs; std::vector<int> ret; std::vector<int> err; std::vector<bool> done;
    uint64_t stream_timeout = ~0ull; std::string log; int fault = 0;
    std::string wire; bool send_failed = false;             // request bytes as they reached the stream, in order
};
static World* W;

static std::string f_of(const std::string& payload, uint64_t tag) {      // the "server function"
    std::string r = payload; std::reverse(r.begin(), r.end()); r += char('A' + tag % 26); return r;
}

static void build_script() {
    // called when every caller has sent its request
    int N = W->N;
    {   // the wire must be the concatenation of the requests, each contiguous, in the order their writes completed or began
        size_t pos = 0; std::vector<uint64_t> seen;
        while (pos < W->wire.size()) {
            if (W->wire.size() - pos < sizeof(rpc::Header)) { pmc_violation("request-bytes-interleaved", "trailing %zu bytes on the wire are not a request", W->wire.size() - pos); break; }
            rpc::Header h; memcpy(&h, W->wire.data() + pos, sizeof h);
            const Req* q = nullptr; for (auto& r : W->reqs) if (r.tag == h.tag) q = &r;
            if (h.magic != rpc::Header().magic || !q || h.size != q->size || W->wire.size() - pos - sizeof h < h.size || W->wire.compare(pos + sizeof h, h.size, q->payload) != 0) {
                pmc_violation("request-bytes-interleaved", "at wire offset %zu: the bytes are not one caller's complete request (header and payload of different calls interleaved)", pos); break; }
            for (auto t : seen) if (t == h.tag) pmc_violation("request-sent-twice", "tag %llu appears twice on the wire", (unsigned long long)h.tag);
            seen.push_back(h.tag); pos += sizeof h + h.size;
        }
        if (seen.size() != W->reqs.size()) pmc_violation("request-bytes-interleaved", "%zu requests on the wire, %zu writes completed", seen.size(), W->reqs.size());
    }
    int perm = pmc_choose(N == 2 ? 2 : 6, PMC_PROG, 0, "response order");
    std::vector<int> order; { std::vector<int> v; for (int i = 0; i < N; i++) v.push_back(i); for (int k = 0; k < perm; k++) std::next_permutation(v.begin(), v.end()); order = v; }
    W->fault = pmc_choose(6, PMC_ENV, 1, "fault: none/unknown-tag/duplicate-tag/eof-after-header/bad-magic/eof-inside-body");
    uint64_t t0 = sv::vnow, t = t0;
    static const uint64_t DELAY[3] = {0, T_SHORT + 20, T_LONG + 20};
    auto header_for = [&](const Req& r, uint64_t tag, uint32_t size, bool badmagic) {
        rpc::Header h; h.size = size; h.function = rpc::FunctionID(1, 1); h.tag = tag; if (badmagic) h.magic ^= 1;
        return std::string((char*)&h, sizeof h);
    };
    for (int k = 0; k < N; k++) {
        const Req& r = W->reqs[order[k]];
        if (W->fault == 1 && k == 0) { std::string body = "zz"; W->segs.push_back({header_for(r, 999, 2, false) + body, t}); }      // nobody asked for tag 999
        int dh = pmc_choose(3, PMC_ENV, 1, "header arrival: now / after short deadline / after long deadline");
        t = std::max(t, t0 + DELAY[dh]);
        std::string body = f_of(r.payload, r.tag);
        std::string hdr = header_for(r, r.tag, body.size(), W->fault == 4 && k == 0);
        int db = pmc_choose(3, PMC_ENV, 1, "body arrival: with header / +120us / +220us");
        uint64_t tb = t + (db == 0 ? 0 : db == 1 ? 120 : 220);
        if (db == 0) W->segs.push_back({hdr + body, t}); else { W->segs.push_back({hdr, t}); W->segs.push_back({body, tb}); t = tb; }
        if (W->fault == 3 && k == 0) { W->segs.resize(W->segs.size() - (db == 0 ? 0 : 1)); if (db == 0) W->segs.back().bytes = hdr; W->segs.push_back({"", t}); break; }   // EOF marker
        if (W->fault == 5 && k == 0) {      // the peer closes after the header and the first body byte(s)
            W->segs.resize(W->segs.size() - (db == 0 ? 1 : 2));
            W->segs.push_back({hdr + body.substr(0, body.size() / 2), t}); W->segs.push_back({"", t}); break;
        }
        if (W->fault == 2 && k == 0) { W->segs.push_back({hdr + body, t}); }                                                         // same tag once more
        W->log += char('0' + order[k]); W->log += char('a' + dh); W->log += char('a' + db);
    }
    for (auto& s : W->segs) sv::register_deadline(s.at);
    W->scripted = true;
}

class MockStream : public IStream {
public:
    int close() override { return 0; }
    int shutdown(ShutdownHow) override { W->shut = true; return 0; }
    uint64_t timeout() const override { return W->stream_timeout; }
    void timeout(uint64_t t) override { W->stream_timeout = t; }
    ssize_t write(const void* b, size_t n) override { iovec v{(void*)b, n}; return writev(&v, 1); }
    ssize_t writev(const iovec* iov, int cnt) override {
        std::string all; for (int i = 0; i < cnt; i++) all.append((char*)iov[i].iov_base, iov[i].iov_len);
        if (W->shut) { errno = EPIPE; return -1; }
        if (all.size() < sizeof(rpc::Header)) pmc_broken("short request");
        // environment: the stream takes the request at once / takes the header, blocks (other callers run), then takes the rest /
        // takes the header, blocks, then fails (short write): requests of concurrent callers must not interleave on the wire, and a
        // failed send must leave every caller with its own response or an error, never blocked
        int how = pmc_choose(3, PMC_ENV, 1, "write: at once / header, yield, rest / header, yield, short write");
        if (how == 0) W->wire += all;
        else {
            W->wire += all.substr(0, sizeof(rpc::Header)); W->log += 'y';
            thread_yield(); thread_yield();
            if (how == 2) { W->log += '!'; W->send_failed = true; return sizeof(rpc::Header); }
            if (W->shut) { errno = EPIPE; return -1; }
            W->wire += all.substr(sizeof(rpc::Header));
        }
        rpc::Header h; memcpy(&h, all.data(), sizeof h);
        Req r; r.tag = h.tag; r.size = h.size; r.payload = all.substr(sizeof h); r.caller = -1;
        for (int c = 0; c < W->N; c++) if (!r.payload.empty() && r.payload[0] == char('a' + c)) r.caller = c;
        W->reqs.push_back(r);
        return all.size();
    }
    // blocking "read exactly n": waits (virtual time) for scripted arrivals, honours the stream timeout
    ssize_t read(void* buf, size_t n) override { iovec v{buf, n}; return do_readv(&v, 1, false); }
    ssize_t readv(const iovec* iov, int cnt) override { return do_readv(iov, cnt, true); }
    ssize_t do_readv(const iovec* iov, int cnt, bool body) {
        if (W->shut) { errno = ENOTCONN; return -1; }
        if (!W->scripted) {
            // no response can arrive before its request was sent: let the other callers issue theirs (they do so as soon as they run)
            for (int guard = 0; (int)W->reqs.size() < W->N && guard < 64 && !W->shut; guard++) thread_yield();
            if (W->shut) { errno = ENOTCONN; return -1; }
            if ((int)W->reqs.size() < W->N) pmc_broken("callers did not send their requests");
            if (!W->scripted) build_script();
        }
        uint64_t deadline = W->stream_timeout == ~0ull ? ~0ull : sv::vnow + W->stream_timeout;
        size_t total = 0; for (int i = 0; i < cnt; i++) total += iov[i].iov_len;
        size_t got = 0; int vi = 0; size_t voff = 0;
        while (got < total) {
            if (W->shut) { errno = ENOTCONN; return -1; }
            if (W->seg >= W->segs.size()) return got;                               // peer closed
            Seg& s = W->segs[W->seg];
            if (s.at > sv::vnow) {
                uint64_t until = std::min(s.at, deadline);
                thread_usleep(until - sv::vnow);
                if (sv::vnow >= deadline && s.at > sv::vnow) { errno = ETIMEDOUT; return -1; }
                continue;
            }
            if (s.bytes.empty()) { W->seg = W->segs.size(); return got; }           // scripted EOF
            size_t k = std::min(s.bytes.size() - W->segoff, total - got);
            // copy k bytes into the destination vector, checking that the destination belongs to a call in progress
            size_t done = 0;
            while (done < k) {
                while (voff == iov[vi].iov_len) { vi++; voff = 0; }
                size_t c = std::min(k - done, iov[vi].iov_len - voff);
                char* dst = (char*)iov[vi].iov_base + voff;
                if (body) {
                    bool ok = false; bool known = false;
                    for (auto& l : W->bufs) if (dst >= l.p && dst + c <= l.p + l.n) { known = true; ok = l.live; }
                    if (known && !ok) pmc_violation("response-written-into-returned-call-buffer", "the stub copies %zu response bytes into the response buffer of a call that has already returned", c);
                }
                memcpy(dst, s.bytes.data() + W->segoff + done, c);
                done += c; voff += c;
            }
            got += k; W->segoff += k;
            if (W->segoff == s.bytes.size()) { W->seg++; W->segoff = 0; }
        }
        return got;
    }
};

static rpc::Stub* STUB;
static void caller(int c) {
    // request payload identifies the caller; response buffer is an exact-size heap block registered while the call is in progress
    std::string payload(1, char('a' + c)); payload += std::string(c + 1, char('p' + c));
    size_t rn = payload.size() + 1;
    char* rb = (char*)malloc(rn); memset(rb, 0, rn);
    W->bufs[c] = {rb, rn, true};
    IOVector req, resp; req.push_back((void*)payload.data(), payload.size()); resp.push_back(rb, rn);
    Timeout tmo = W->tmo[c] ? Timeout(W->tmo[c]) : Timeout();
    if (W->tmo[c]) sv::register_deadline(sv::vnow + W->tmo[c]);
    errno = 0;
    int r = STUB->do_call(rpc::FunctionID(1, 1), &req, &resp, tmo);
    int e = errno;
    W->bufs[c].live = false;                       // from here on nobody may touch rb
    W->ret[c] = r; W->err[c] = e; W->done[c] = true;
    if (r >= 0) {
        uint64_t mytag = 0; for (auto& q : W->reqs) if (q.caller == c) mytag = q.tag;
        std::string want = f_of(payload, mytag);
        if ((size_t)r != want.size() || memcmp(rb, want.data(), want.size()) != 0)
            pmc_violation("wrong-response", "caller %d got %d bytes \"%.*s\", expected \"%s\" (its own request's result)", c, r, r > 0 ? r : 0, rb, want.c_str());
    }
    W->log += char('A' + c); W->log += r >= 0 ? '+' : (e == ETIMEDOUT ? 't' : e == ECONNRESET ? 'r' : e == EFAULT ? 'f' : '?');
    // keep the block allocated (poisoned by its live=false flag) until the end of the run so that a late write is attributed
}

static void on_deadlock() {
    std::string s; for (int c = 0; c < W->N; c++) if (!W->done[c]) s += char('0' + c);
    pmc_violation("caller-blocked-forever", "caller(s) %s never returned", s.c_str());
}

// config "n<N>:<timeouts>"  timeouts: one char per caller: i = none, s = 100us, l = 200us
void pmc_run(const char* config) {
    World w; W = &w;
    char tm[8]; if (sscanf(config, "n%d:%7s", &w.N, tm) != 2) pmc_broken("bad config");
    for (int c = 0; c < w.N; c++) w.tmo.push_back(tm[c] == 'i' ? 0 : tm[c] == 's' ? T_SHORT : T_LONG);
    w.bufs.resize(w.N); w.ret.assign(w.N, 0); w.err.assign(w.N, 0); w.done.assign(w.N, false);
    pmc_window(0);
    sv::init();
    sv::on_deadlock = on_deadlock;
    MockStream ms;
    STUB = rpc::new_rpc_stub(&ms, false);
    pmc_window(1);
    // callers are NOT joinable: a caller's stack (which holds the stub's per-call context) is released - and poisoned by the
    // harness allocator - as soon as the caller returns, so a late access by another caller is reported by ASan
    photon::semaphore fin;
    for (int c = 0; c < w.N; c++) thread_create11(64 * 1024, [c, &fin] { caller(c); fin.signal(1); });
    fin.wait(w.N);
    thread_yield();      // let the last caller die
    pmc_window(0);
    if (STUB->get_queue_count() != 0) pmc_violation("queue-not-empty", "ooo queue holds %d entries after every caller returned", STUB->get_queue_count());
    pmc_obs("f%d %s", w.fault, w.log.c_str());
    delete STUB; STUB = nullptr;
    for (auto& b : w.bufs) free(b.p);
    sv::fini();
    W = nullptr;
}

static const PmcConfig CFG[] = {
    {"n2:ii",  3, {0,0}, {0,0}, {2,3}, {0,0}, "two callers, no timeouts: permutations, splits, faults"},
    {"n2:si",  3, {0,0}, {0,0}, {2,3}, {0,0}, "first caller (the reader) has the short deadline"},
    {"n2:is",  3, {0,0}, {0,0}, {2,3}, {0,0}, "the follower has the short deadline: it may give up while the reader fills its buffer"},
    {"n2:sl",  3, {0,0}, {0,0}, {2,3}, {0,0}, ""},
    {"n3:iii", 3, {0,0}, {0,0}, {2,2}, {0,0}, "three callers"},
    {"n3:isl", 3, {0,0}, {0,0}, {2,3}, {0,0}, ""},
    {"n3:lsi", 2, {0,0}, {0,0}, {2,3}, {0,0}, ""},
};
const PmcConfig* pmc_configs(int* n) { *n = sizeof CFG / sizeof CFG[0]; return CFG; }
const char* pmc_property(void) { return "C11"; }
const char* pmc_target(void) { return "rpc_sv"; }
int main(int argc, char** argv) { return pmc_main(argc, argv); }
