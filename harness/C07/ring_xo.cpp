// C07 ring_xo: lock-free ring queues between plain OS threads under the controlled scheduler (capacity 2, index wrap).
// config "<Q><w>:<ops>|<ops>|..."  Q: M = LockfreeMPMCRingQueue<int,2>, m = same with MarkType=uint8_t, B = LockfreeBatchMPMCRingQueue<int,2>, S = LockfreeSPSCRingQueue<int,2>
//        w: 0 = indices start at 0, w = head/tail preset so that they wrap through 2^64 (marks preset consistently)
// ops: p push (may fail when full)  s send (blocking)  o pop (may fail when empty)  r recv (blocking)  P push_batch of 2  O pop_batch of 2
#define protected public
#define private public
#include <photon/common/lockfree_queue.h>
#undef protected
#undef private
#include "mv_photon.h"
#include <vector>
#include <string>
#include <algorithm>
#include <string.h>

struct St { std::vector<int> pushed, got[8]; std::string log; };
static St* G;
static LockfreeMPMCRingQueue<int, 2>* QM; static LockfreeMPMCRingQueue<int, 2, uint8_t>* Qm;
static LockfreeBatchMPMCRingQueue<int, 2>* QB; static LockfreeSPSCRingQueue<int, 2>* QS;
static char kind;

static size_t avail() { return kind == 'M' ? QM->read_available() : kind == 'm' ? Qm->read_available() : kind == 'B' ? QB->read_available() : QS->read_available(); }
static bool q_push(int v) { return kind == 'M' ? QM->push(v) : kind == 'm' ? Qm->push(v) : kind == 'B' ? QB->push(v) : QS->push(v); }
static bool q_pop(int& v) { return kind == 'M' ? QM->pop(v) : kind == 'm' ? Qm->pop(v) : kind == 'B' ? QB->pop(v) : QS->pop(v); }
static void q_send(int v) { if (kind == 'M') QM->send(v); else if (kind == 'm') Qm->send(v); else if (kind == 'B') QB->send(v); else QS->send(v); }
static int q_recv() { return kind == 'M' ? QM->recv() : kind == 'm' ? Qm->recv() : kind == 'B' ? QB->recv() : QS->recv(); }

static bool g_has_send = false;
static void check_cap(const char* when) {
    // read_available() = tail - head counts tickets claimed by blocked send() callers too: only meaningful without send()
    if (g_has_send && (kind == 'M' || kind == 'm')) return;
    size_t a = avail();
    if (a > 2 && a < (size_t)-8) pmc_violation("over-capacity", "%s: read_available()=%zu > capacity 2", when, a);
}

static void body(int id, std::string ops) {
    int seq = 0;
    for (char op : ops) {
        if (op == 'p' || op == 's') {
            int v = id * 100 + seq++;
            bool ok = true;
            if (op == 'p') ok = q_push(v); else q_send(v);
            if (ok) G->pushed.push_back(v);
            G->log += char('a' + id); G->log += ok ? op : 'x';
        } else if (op == 'P') {
            int v[2] = {id * 100 + seq, id * 100 + seq + 1}; seq += 2;
            size_t n = kind == 'B' ? QB->push_batch(v, 2) : QS->push_batch(v, 2);
            for (size_t i = 0; i < n; i++) G->pushed.push_back(v[i]);
            if (n < 2) seq -= (2 - n);       // unsent values are not numbered
            G->log += char('a' + id); G->log += char('0' + n);
        } else if (op == 'o' || op == 'r') {
            int v = -1; bool ok = true;
            if (op == 'o') ok = q_pop(v); else v = q_recv();
            if (ok) G->got[id].push_back(v);
            G->log += char('a' + id); G->log += ok ? op : 'e';
        } else if (op == 'O') {
            int v[2]; size_t n = kind == 'B' ? QB->pop_batch(v, 2) : QS->pop_batch(v, 2);
            for (size_t i = 0; i < n; i++) G->got[id].push_back(v[i]);
            G->log += char('a' + id); G->log += char('0' + n);
        }
        check_cap("after op");
    }
}

void pmc_run(const char* config) {
    St st; G = &st;
    kind = config[0]; bool wrap = config[1] == 'w'; g_has_send = strchr(config + 3, 's') != nullptr;
    QM = new LockfreeMPMCRingQueue<int, 2>; Qm = new LockfreeMPMCRingQueue<int, 2, uint8_t>;
    QB = new LockfreeBatchMPMCRingQueue<int, 2>; QS = new LockfreeSPSCRingQueue<int, 2>;
    // unwritten slots hold a recognisable value (a consumer that reads a slot before its producer wrote it must not see a valid element)
    for (auto& x : QM->slots) x.data = 0x7f7f7f7f; for (auto& x : Qm->slots) x.data = 0x7f7f7f7f;
    for (auto& x : QB->slots) x = 0x7f7f7f7f; for (auto& x : QS->slots) x = 0x7f7f7f7f;
    if (wrap) {
        // start two steps before the 64-bit index wraps; marks as the previous turn's readers left them
        size_t start = (size_t)-2;
        if (kind == 'M') { QM->head = start; QM->tail = start; for (auto& s : QM->slots) s.mark = QM->last_turn_read(start); }
        if (kind == 'm') { Qm->head = start; Qm->tail = start; for (auto& s : Qm->slots) s.mark = Qm->last_turn_read(start); }
        if (kind == 'B') { QB->head = start; QB->tail = start; QB->write_head = start; QB->read_tail = start; }
        if (kind == 'S') { QS->head = start; QS->tail = start; }
    }
    std::vector<std::string> progs; std::string cur;
    bool tso = strstr(config, ":tso") != nullptr;
    for (const char* c = config + 3;; c++) { if (*c == '|' || *c == 0 || *c == ':') { progs.push_back(cur); cur.clear(); if (*c != '|') break; } else cur += *c; }
    pmc_window(0);
    mv_init();
    mv_tso(tso);
    if (strstr(config, ":plain")) {      // the rings' own memory (slots, marks, indices): plain accesses are scheduling points too
        mv_plain_region(QM, sizeof *QM); mv_plain_region(Qm, sizeof *Qm); mv_plain_region(QB, sizeof *QB); mv_plain_region(QS, sizeof *QS);
    }
    pmc_window(1);
    std::vector<pthread_t> ts;
    for (size_t i = 0; i < progs.size(); i++) { std::string p = progs[i]; int id = i; ts.push_back(mvp::spawn_os([id, p] { body(id, p); }, "os")); }
    for (auto t : ts) mvp::join(t);
    pmc_window(0);
    // drain what is left, then: received multiset == successfully pushed multiset; per-producer FIFO per consumer
    std::vector<int> all; int v; int guard = 0;
    while (q_pop(v)) { st.got[7].push_back(v); if (++guard > 16) pmc_violation("drain-endless", "more than 16 leftover elements"); }
    for (auto& g : st.got) {
        for (size_t i = 0; i < g.size(); i++) for (size_t j = i + 1; j < g.size(); j++)
            if (g[i] / 100 == g[j] / 100 && g[i] > g[j]) pmc_violation("fifo-order", "one consumer received %d before %d from the same producer", g[i], g[j]);
        all.insert(all.end(), g.begin(), g.end());
    }
    std::vector<int> a = all, b = st.pushed; std::sort(a.begin(), a.end()); std::sort(b.begin(), b.end());
    if (a != b) {
        std::string sa, sb; for (int x : a) sa += std::to_string(x) + ","; for (int x : b) sb += std::to_string(x) + ",";
        bool dup = std::adjacent_find(a.begin(), a.end()) != a.end();
        pmc_violation(dup ? "element-duplicated" : a.size() < b.size() ? "element-lost" : "element-invented", "received {%s} pushed {%s}", sa.c_str(), sb.c_str());
    }
    pmc_obs("%s left=%zu", st.log.c_str(), st.got[7].size());
    delete QM; delete Qm; delete QB; delete QS;
    mv_fini();
}

static const PmcConfig CFG[] = {
    {"M0:pp|oo",      3, {3,6}, {0,0}, {0,0}, {0,0}, ""},
    {"M0:ss|rr",      3, {3,6}, {0,0}, {0,0}, {0,0}, ""},
    {"M0:ppp|ooo",    3, {2,4}, {0,0}, {0,0}, {0,0}, "more pushes than slots: full / wrap of the turn marks"},
    {"Mw:sss|rrr",    3, {2,4}, {0,0}, {0,0}, {0,0}, "indices wrap through 2^64"},
    {"mw:sss|rrr",    3, {2,4}, {0,0}, {0,0}, {0,0}, "8-bit marks"},
    {"M0:pp|pp|oooo", 3, {1,3}, {0,0}, {0,0}, {0,0}, "two producers"},
    {"M0:ss|s|rr|r",  3, {1,3}, {0,0}, {0,0}, {0,0}, "two producers, two consumers"},
    {"M0:sp|ss|r|ro",2, {1,3}, {0,0}, {0,0}, {0,0}, "mix of try and blocking operations (blocking receives never outnumber the blocking sends)"},
    {"B0:pp|oo",      3, {3,6}, {0,0}, {0,0}, {0,0}, ""},
    {"B0:P|p|OO",     3, {2,4}, {0,0}, {0,0}, {0,0}, "batch push racing with single push: ordered publication"},
    {"Bw:ss|ss|rrrr", 3, {1,3}, {0,0}, {0,0}, {0,0}, ""},
    {"B0:Pp|O|O",     3, {2,3}, {0,0}, {0,0}, {0,0}, "two consumers"},
    {"S0:ppp|ooo",    3, {3,6}, {0,0}, {0,0}, {0,0}, ""},
    {"Sw:sss|rrr",    3, {3,6}, {0,0}, {0,0}, {0,0}, ""},
    {"S0:Pp|Oo",      3, {3,6}, {0,0}, {0,0}, {0,0}, ""},
    {"M0:pp|oo:plain",   3, {2,4}, {0,0}, {0,0}, {0,0}, "plain slot accesses are scheduling points: a preemption can land between publishing and writing / reading and releasing a slot"},
    {"Mw:sss|rrr:plain", 3, {2,3}, {0,0}, {0,0}, {0,0}, ""},
    {"B0:P|p|OO:plain",  3, {2,3}, {0,0}, {0,0}, {0,0}, ""},
    {"S0:ppp|ooo:plain", 3, {2,4}, {0,0}, {0,0}, {0,0}, ""},
    {"M0:pp|pp|oooo:plain", 2, {2,3}, {0,0}, {0,0}, {0,0}, ""},
    {"M0:ss|rr:tso",  3, {2,3}, {0,0}, {1,2}, {3,4}, "store-buffer mode (x86-TSO)"},
    {"B0:P|p|OO:tso", 3, {2,2}, {0,0}, {1,2}, {3,3}, ""},
    {"S0:ppp|ooo:tso",3, {2,3}, {0,0}, {1,2}, {3,4}, ""},
};
const PmcConfig* pmc_configs(int* n) { *n = sizeof CFG / sizeof CFG[0]; return CFG; }
const char* pmc_property(void) { return "C07"; }
const char* pmc_target(void) { return "ring_xo"; }
int main(int argc, char** argv) { return pmc_main(argc, argv); }
