// C07 chan_xv: RingChannel / FlexRingChannel: consumers (photon threads) blocked in recv() must be notified by send();
// producers blocked on a full ring must be notified by recv(). Controlled multi-vCPU scheduler.
// ops: r recv   s send (PhotonPause on a vCPU, ThreadPause on a plain '@' OS thread)   Z sleep 150 ms (lets the 100 ms timed re-check of a blocked peer fire once, legitimately)
// Oracle: values conserved + per-producer order per consumer; NO 100 ms timed re-check may ever be needed: virtual time only
// advances when nothing can run, so reaching +100 ms before the program is done means everybody slept on an available item/slot.
#define protected public
#define private public
#include <photon/common/lockfree_queue.h>
#undef protected
#undef private
#include "mv_prog.h"
#include <algorithm>
#include <string.h>
using namespace photon;

typedef common::RingChannel<LockfreeMPMCRingQueue<int, 2>> ChanM;
typedef common::RingChannel<LockfreeBatchMPMCRingQueue<int, 2>> ChanB;
typedef common::FlexRingChannel<FlexLockfreeMPMCRingQueue<int>> ChanF;

struct St { mvprog::Prog prog; std::vector<int> sent, got[16]; std::string log; char kind; bool has_sleep = false; uint64_t last_pop = 0, last_push = 0; ChanM* cm = nullptr; ChanB* cb = nullptr; ChanF* cf = nullptr; };
static St* G;

// with 'Z' ops the absolute rule does not apply; the relative one does: an operation that began waiting before the last pop (for a send)
// or push (for a recv) must not complete 50 ms or more after it -- time only moves when nobody can run
static void too_late_rel(const char* what, int me, uint64_t t_start, uint64_t last_peer_op) {
    if (last_peer_op && t_start < last_peer_op && mv_now() >= last_peer_op + 50000)
        pmc_violation("timed-recheck-needed", "%s by thread %d began at +%llu us, its peer made room / an element available at +%llu us, but it completed only at +%llu us (woken by the 100 ms timed re-check, not by a notification)",
                      what, me, (unsigned long long)(t_start - MV_T0), (unsigned long long)(last_peer_op - MV_T0), (unsigned long long)(mv_now() - MV_T0));
}
static void too_late(const char* what, int me) {
    if (G->has_sleep) return;
    if (mv_now() - MV_T0 >= 100000)
        pmc_violation("timed-recheck-needed", "%s by thread %d completed only after the 100 ms periodic re-check fired (virtual time +%llu us): every thread was asleep while an element / a free slot was available",
                      what, me, (unsigned long long)(mv_now() - MV_T0));
}

static void body(mvprog::PT& p) {
    int me = p.idx, seq = 0;
    for (char op : p.ops) {
        if (op == 'Z') { thread_usleep(150 * 1000); continue; }
        uint64_t t_start = mv_now();
        if (op == 's') {
            int v = me * 100 + seq++;
            if (p.plain_os) { if (G->kind == 'M') G->cm->send<ThreadPause>(v); else if (G->kind == 'B') G->cb->send<ThreadPause>(v); else G->cf->send<ThreadPause>(v); }
            else            { if (G->kind == 'M') G->cm->send<PhotonPause>(v); else if (G->kind == 'B') G->cb->send<PhotonPause>(v); else G->cf->send<PhotonPause>(v); }
            G->sent.push_back(v); too_late("send", me); too_late_rel("send", me, t_start, G->last_pop); G->last_push = mv_now();
            G->log += char('a' + me); G->log += 's';
        } else if (op == 'r') {
            int v = G->kind == 'M' ? G->cm->recv() : G->kind == 'B' ? G->cb->recv() : G->cf->recv();
            G->got[me].push_back(v); too_late("recv", me); too_late_rel("recv", me, t_start, G->last_push); G->last_pop = mv_now();
            G->log += char('a' + me); G->log += 'r';
        } else if (op == 'y') thread_yield();
    }
}

static void on_deadlock(const char* dump) { pmc_violation("deadlock", "channel user blocked forever: %s", dump); }

// config "<M|B|F>:<prog>"
void pmc_run(const char* config) {
    St st; G = &st; st.kind = config[0];
    { std::string pr(config + 2); size_t c = pr.find(':'); if (c != std::string::npos) pr.resize(c); st.prog.parse(pr.c_str()); }
    bool tso = strstr(config, ":tso") != nullptr;
    st.has_sleep = strchr(config, 'Z') != nullptr;
    // yield_turn 0 / yield_usec 0: go straight to the semaphore wait (the busy-yield phase only delays the interesting part)
    if (st.kind == 'M') st.cm = new ChanM(0, 0); else if (st.kind == 'B') st.cb = new ChanB(0, 0); else st.cf = ChanF::create(2, 0, 0);
    pmc_window(0);
    mv_init(); mvp::use_fast_stacks(true);
    mv_tso(tso); mv_switch_points(0);     // built with -DPHOTON_VERIF for the TSC hook only
    mv_on_deadlock = on_deadlock;
    st.prog.run(body);
    std::vector<int> all;
    for (auto& g : st.got) {
        for (size_t i = 0; i < g.size(); i++) for (size_t j = i + 1; j < g.size(); j++)
            if (g[i] / 100 == g[j] / 100 && g[i] > g[j]) pmc_violation("fifo-order", "one consumer received %d before %d", g[i], g[j]);
        all.insert(all.end(), g.begin(), g.end());
    }
    int v; while (st.kind == 'M' ? st.cm->pop(v) : st.kind == 'B' ? st.cb->pop(v) : st.cf->queue->pop(v)) all.push_back(v);
    std::vector<int> a = all, b = st.sent; std::sort(a.begin(), a.end()); std::sort(b.begin(), b.end());
    if (a != b) pmc_violation(a.size() < b.size() ? "element-lost" : "element-duplicated-or-invented", "received %zu, sent %zu", a.size(), b.size());
    uint64_t pend = st.kind == 'M' ? st.cm->notification_pending() : st.kind == 'B' ? st.cb->notification_pending() : st.cf->notification_pending();
    int consumers = 0; for (auto& p : st.prog.pts) if (p.ops.find('r') != std::string::npos) consumers++;
    if (pend > (uint64_t)consumers) pmc_violation("stale-notifications", "notification_pending()=%llu exceeds the %d consumers", (unsigned long long)pend, consumers);
    pmc_obs("%s pend=%llu", st.log.c_str(), (unsigned long long)pend);
    delete st.cm; delete st.cb; if (st.cf) ChanF::destroy(st.cf);
    mv_fini(); G = nullptr;
}

static const PmcConfig CFG[] = {
    {"M:r|s",       3, {2,3}, {0,0}, {0,0}, {0,0}, "the Dekker window: consumer registers as idle while the producer checks for idlers"},
    {"M:r|@s",      3, {2,3}, {0,0}, {0,0}, {0,0}, "producer is a plain OS thread"},
    {"M:rr|ss",     3, {1,2}, {0,0}, {0,0}, {0,0}, ""},
    {"M:r,r|ss",    3, {1,2}, {0,0}, {0,0}, {0,0}, "two consumers, one producer"},
    {"M:r,r|s|@s",  3, {1,2}, {0,0}, {0,0}, {0,0}, "two consumers, two producers"},
    {"M:rrr|sss",   3, {1,2}, {0,0}, {0,0}, {0,0}, "burst larger than the ring: blocked producer must be notified"},
    {"M:yrrr|sss",  2, {1,2}, {0,0}, {0,0}, {0,0}, ""},
    {"M:sss,Zrrr",  3, {0,0}, {0,0}, {0,0}, {0,0}, "a producer stays blocked on the full ring through one whole 100 ms timed wait; the pops that follow must still notify it"},
    {"M:sss|Zrrr",  3, {1,1}, {0,0}, {0,0}, {0,0}, ""},
    {"M:Zsss|rrr",  3, {1,1}, {0,0}, {0,0}, {0,0}, "same for a consumer that waited through a timed re-check"},
    {"F:ssss,Zrrrr",2, {0,0}, {0,0}, {0,0}, {0,0}, ""},
    {"B:r|s",       3, {2,3}, {0,0}, {0,0}, {0,0}, "batch ring"},
    {"B:r,r|ss",    3, {1,2}, {0,0}, {0,0}, {0,0}, ""},
    {"M:r|s:tso",   3, {2,2}, {0,0}, {1,2}, {2,3}, "the Dekker window under x86-TSO: the seq_cst fence in send() and the seq_cst RMW in recv() must close it"},
    {"M:r|@s:tso",  3, {2,2}, {0,0}, {1,2}, {3,3}, ""},
    {"F:r|s",       3, {2,3}, {0,0}, {0,0}, {0,0}, "FlexRingChannel"},
    {"F:rrr|sss",   3, {1,2}, {0,0}, {0,0}, {0,0}, ""},
    {"F:r,r|s|@s",  2, {1,2}, {0,0}, {0,0}, {0,0}, ""},
};
const PmcConfig* pmc_configs(int* n) { *n = sizeof CFG / sizeof CFG[0]; return CFG; }
const char* pmc_property(void) { return "C07"; }
const char* pmc_target(void) { return "chan_xv"; }
int main(int argc, char** argv) { return pmc_main(argc, argv); }
