// C20 subfs: bounded-exhaustive check that no path given to a sub-filesystem reaches outside its base directory,
// and that no legal path is refused.
//
// Subject: photon::fs::new_subfs(recordingFS, base, ownership=false) for base in {"/base", "/", "/base/", "/a/b"}.
// The RecordingFS implements every method of IFileSystem + IFileSystemXAttr and stores the method name and the exact
// path string(s) of the last call. subfs returns the underlay's result untouched (never inspects an IFile*/DIR*), so the
// recorder returns 0 / nullptr.
//
// How subfs "rejects": PathCat sets the path pointer to nullptr and the operation is STILL forwarded, with a null path
// (fs/subfs.cpp:88-98). A null path at the recorder is therefore what "rejected" means here.
// How subfs "accepts": forwarded = base_path (always made to end in '/') + path, byte for byte; an absolute input "/a"
// under "/base" arrives as "/base//a". The oracle accepts any form  strip_trailing('/', base) + '/'{1,} + strip_leading('/', path).
//
// Reference model (boring): split the input on '/', walk the components with a depth counter starting at 0:
//   ""  and "."  keep the depth, ".." decrements, every other name (also ".a", "..a", "...") increments.
//   legal  <=>  no prefix takes the depth below 0.
// SAFETY   : every non-null forwarded path, normalised lexically (drop "" and ".", "x/.." collapses, "/.." stays "/"),
//            must be absolute and equal to / below the normalised base                              -> "escape"
// LIVENESS : a legal path must be forwarded (non-null) and intact                                    -> "legal-path-rejected:<class>", "legal-path-altered"
//            classes (by the kinds of names that the path's ".." components cancel, stack walk):
//              no-dotdot | dotdot-after-name | dotdot-after-2char-dotname | dotdot-after-long-dotname | dotdot-after-mixed-names
// LENGTH   : T = |base without trailing slashes| + 1 + |path|. T <= PATH_MAX-4 : liveness applies in full;
//            T >= PATH_MAX-3 : may be rejected; whenever forwarded it must be intact and inside (no truncation). A stack
//            overflow of PathCat::buf would be an ASan report.
// symlink(content, linkpath): the first argument is the link's CONTENT, not a path the operation resolves; subfs forwards
//            it verbatim and unchecked. The property is about paths the operation acts on, and rewriting the content would
//            make readlink() through the subfs return something else than was stored, so the oracle demands: content
//            forwarded verbatim ("symlink-content-altered" otherwise), linkpath checked like any other path.
#include "seqx.h"
#include <photon/fs/filesystem.h>
#include <photon/fs/subfs.h>
#include <photon/common/alog.h>
#include <sys/stat.h>
#include <sys/statfs.h>
#include <sys/statvfs.h>
#include <sys/time.h>
#include <utime.h>
#include <limits.h>
#include <string>
#include <vector>
using namespace photon::fs;

// ---------------------------------------------------------------- recording underlay
struct Record {
    const char* op = "";
    int calls = 0;
    int npaths = 0;
    bool null[2] = {false, false};
    std::string p[2];
    void reset() { op = ""; calls = 0; npaths = 0; null[0] = null[1] = false; }
    void one(const char* o, const char* a) { op = o; calls++; npaths = 1; set(0, a); }
    void two(const char* o, const char* a, const char* b) { op = o; calls++; npaths = 2; set(0, a); set(1, b); }
    void set(int i, const char* s) { null[i] = !s; if (s) p[i].assign(s); else p[i].clear(); }
};
static Record R;

class RecordingFS : public IFileSystem, public IFileSystemXAttr {
public:
    IFile* open(const char* path, int) override { R.one("open", path); return nullptr; }
    IFile* open(const char* path, int, mode_t) override { R.one("open3", path); return nullptr; }
    IFile* creat(const char* path, mode_t) override { R.one("creat", path); return nullptr; }
    int mkdir(const char* path, mode_t) override { R.one("mkdir", path); return 0; }
    int rmdir(const char* path) override { R.one("rmdir", path); return 0; }
    int symlink(const char* a, const char* b) override { R.two("symlink", a, b); return 0; }
    ssize_t readlink(const char* path, char*, size_t) override { R.one("readlink", path); return 0; }
    int link(const char* a, const char* b) override { R.two("link", a, b); return 0; }
    int rename(const char* a, const char* b) override { R.two("rename", a, b); return 0; }
    int unlink(const char* path) override { R.one("unlink", path); return 0; }
    int chmod(const char* path, mode_t) override { R.one("chmod", path); return 0; }
    int chown(const char* path, uid_t, gid_t) override { R.one("chown", path); return 0; }
    int lchown(const char* path, uid_t, gid_t) override { R.one("lchown", path); return 0; }
    int statfs(const char* path, struct statfs*) override { R.one("statfs", path); return 0; }
    int statvfs(const char* path, struct statvfs*) override { R.one("statvfs", path); return 0; }
    int stat(const char* path, struct stat* st) override {
        R.one("stat", path);
        if (st) { memset(st, 0, sizeof *st); st->st_mode = S_IFDIR | 0755; }       // init() wants the base to be a directory
        return 0;
    }
    int lstat(const char* path, struct stat*) override { R.one("lstat", path); return 0; }
    int access(const char* path, int) override { R.one("access", path); return 0; }
    int truncate(const char* path, off_t) override { R.one("truncate", path); return 0; }
    int utime(const char* path, const struct utimbuf*) override { R.one("utime", path); return 0; }
    int utimes(const char* path, const struct timeval[2]) override { R.one("utimes", path); return 0; }
    int lutimes(const char* path, const struct timeval[2]) override { R.one("lutimes", path); return 0; }
    int mknod(const char* path, mode_t, dev_t) override { R.one("mknod", path); return 0; }
    int syncfs() override { R.op = "syncfs"; R.calls++; R.npaths = 0; return 0; }
    DIR* opendir(const char* path) override { R.one("opendir", path); return nullptr; }
    ssize_t getxattr(const char* path, const char*, void*, size_t) override { R.one("getxattr", path); return 0; }
    ssize_t lgetxattr(const char* path, const char*, void*, size_t) override { R.one("lgetxattr", path); return 0; }
    ssize_t listxattr(const char* path, char*, size_t) override { R.one("listxattr", path); return 0; }
    ssize_t llistxattr(const char* path, char*, size_t) override { R.one("llistxattr", path); return 0; }
    int setxattr(const char* path, const char*, const void*, size_t, int) override { R.one("setxattr", path); return 0; }
    int lsetxattr(const char* path, const char*, const void*, size_t, int) override { R.one("lsetxattr", path); return 0; }
    int removexattr(const char* path, const char*) override { R.one("removexattr", path); return 0; }
    int lremovexattr(const char* path, const char*) override { R.one("lremovexattr", path); return 0; }
};

// ---------------------------------------------------------------- operations
enum { NOP1 = 29, NOP2 = 3 };
static const char* const OP1[NOP1] = {"stat", "open", "open3", "creat", "mkdir", "rmdir", "unlink", "lstat", "access", "truncate", "chmod", "chown", "lchown",
                                      "statfs", "statvfs", "utime", "utimes", "lutimes", "readlink", "opendir", "mknod",
                                      "getxattr", "lgetxattr", "listxattr", "llistxattr", "setxattr", "lsetxattr", "removexattr", "lremovexattr"};
static const char* const OP2[NOP2] = {"rename", "link", "symlink"};

static void call1(IFileSystem* fs, IFileSystemXAttr* xfs, int op, const char* p) {
    struct stat st; struct statfs sf; struct statvfs sv; struct utimbuf ut = {0, 0}; struct timeval tv[2] = {{0, 0}, {0, 0}}; char buf[16];
    switch (op) {
    case 0: fs->stat(p, &st); break;
    case 1: fs->open(p, 0); break;
    case 2: fs->open(p, 0, 0644); break;
    case 3: fs->creat(p, 0644); break;
    case 4: fs->mkdir(p, 0755); break;
    case 5: fs->rmdir(p); break;
    case 6: fs->unlink(p); break;
    case 7: fs->lstat(p, &st); break;
    case 8: fs->access(p, 0); break;
    case 9: fs->truncate(p, 0); break;
    case 10: fs->chmod(p, 0644); break;
    case 11: fs->chown(p, 0, 0); break;
    case 12: fs->lchown(p, 0, 0); break;
    case 13: fs->statfs(p, &sf); break;
    case 14: fs->statvfs(p, &sv); break;
    case 15: fs->utime(p, &ut); break;
    case 16: fs->utimes(p, tv); break;
    case 17: fs->lutimes(p, tv); break;
    case 18: fs->readlink(p, buf, sizeof buf); break;
    case 19: fs->opendir(p); break;
    case 20: fs->mknod(p, 0644, 0); break;
    case 21: xfs->getxattr(p, "user.x", buf, sizeof buf); break;
    case 22: xfs->lgetxattr(p, "user.x", buf, sizeof buf); break;
    case 23: xfs->listxattr(p, buf, sizeof buf); break;
    case 24: xfs->llistxattr(p, buf, sizeof buf); break;
    case 25: xfs->setxattr(p, "user.x", "v", 1, 0); break;
    case 26: xfs->lsetxattr(p, "user.x", "v", 1, 0); break;
    case 27: xfs->removexattr(p, "user.x"); break;
    case 28: xfs->lremovexattr(p, "user.x"); break;
    }
}
static void call2(IFileSystem* fs, int op, const char* a, const char* b) {
    switch (op) {
    case 0: fs->rename(a, b); break;
    case 1: fs->link(a, b); break;
    case 2: fs->symlink(a, b); break;
    }
}

// ---------------------------------------------------------------- reference model
enum Kind { K_E = 0, K_S, K_U, K_N, K_D2, K_D3 };           // empty, ".", "..", ordinary name, ".x", dot-name of >= 3 chars
struct Walk {
    bool legal; int min_depth, final_depth; bool absolute, trailing; bool any_dotdot;
    unsigned cancelled;                                     // bit0: ordinary name, bit1: 2-char dot-name, bit2: long dot-name
    uint64_t kinds;                                         // hash of the component-kind sequence
};
static std::vector<char> g_stack;
static Walk walk(const char* p, size_t n) {
    Walk w; w.legal = true; w.min_depth = 0; w.final_depth = 0; w.absolute = n && p[0] == '/'; w.trailing = n && p[n - 1] == '/';
    w.any_dotdot = false; w.cancelled = 0; w.kinds = 0x1234;
    g_stack.clear();
    int depth = 0; size_t i = 0;
    for (;;) {
        size_t j = i; while (j < n && p[j] != '/') j++;
        size_t len = j - i; Kind k;
        if (len == 0) k = K_E;
        else if (p[i] != '.') k = K_N;
        else if (len == 1) k = K_S;
        else if (len == 2) k = p[i + 1] == '.' ? K_U : K_D2;
        else k = K_D3;
        w.kinds = w.kinds * 1099511628211ull + k + 1;
        if (k == K_U) {
            w.any_dotdot = true; depth--;
            if (w.legal) {
                if (g_stack.empty()) w.legal = false;
                else { w.cancelled |= 1u << (g_stack.back() - K_N); g_stack.pop_back(); }
            }
        } else if (k >= K_N) { depth++; if (w.legal) g_stack.push_back((char)k); }
        if (depth < w.min_depth) w.min_depth = depth;
        if (j >= n) break;
        i = j + 1;
    }
    w.final_depth = depth;
    return w;
}
static inline uint64_t walk_class(const Walk& w) {
    uint64_t h = seqx::mix(w.kinds, (w.absolute ? 1 : 0) + (w.trailing ? 2 : 0));
    h = seqx::mix(h, (uint64_t)(std::max(w.min_depth, -3) + 3));
    return seqx::mix(h, (uint64_t)(std::max(-3, std::min(w.final_depth, 4)) + 3));
}
static const char* reject_class(const Walk& w) {
    if (!w.any_dotdot) return "legal-path-rejected:no-dotdot";
    switch (w.cancelled) {
    case 1: return "legal-path-rejected:dotdot-after-name";
    case 2: return "legal-path-rejected:dotdot-after-2char-dotname";
    case 4: return "legal-path-rejected:dotdot-after-long-dotname";
    default: return "legal-path-rejected:dotdot-after-mixed-names";
    }
}

// lexical normalisation of an absolute path into components
struct Comp { const char* p; size_t n; };
static void normalise(const std::string& f, std::vector<Comp>& out) {
    out.clear();
    const char* s = f.data(); size_t n = f.size(), i = 0;
    while (i <= n) {
        size_t j = i; while (j < n && s[j] != '/') j++;
        size_t len = j - i;
        if (len == 0 || (len == 1 && s[i] == '.')) {}
        else if (len == 2 && s[i] == '.' && s[i + 1] == '.') { if (!out.empty()) out.pop_back(); }     // "/.." is "/"
        else out.push_back({s + i, len});
        i = j + 1;
    }
}

struct Base {
    std::string given, b0;                 // as passed to new_subfs; without trailing slashes
    std::vector<std::string> comps;        // normalised components
    IFileSystem* fs = nullptr; IFileSystemXAttr* xfs = nullptr;
};
static std::vector<Comp> g_norm;
static bool inside(const Base& b, const std::string& f) {
    if (f.empty() || f[0] != '/') return false;
    normalise(f, g_norm);
    if (g_norm.size() < b.comps.size()) return false;
    for (size_t i = 0; i < b.comps.size(); i++)
        if (g_norm[i].n != b.comps[i].size() || memcmp(g_norm[i].p, b.comps[i].data(), g_norm[i].n)) return false;
    return true;
}
static bool intact(const Base& b, const std::string& f, const char* path, size_t n) {
    size_t lead = 0; while (lead < n && path[lead] == '/') lead++;
    if (f.size() < b.b0.size() + 1 || f.compare(0, b.b0.size(), b.b0) != 0) return false;
    size_t k = b.b0.size(), slashes = 0;
    while (k < f.size() && f[k] == '/') { k++; slashes++; }
    if (slashes < 1) return false;
    return f.size() - k == n - lead && memcmp(f.data() + k, path + lead, n - lead) == 0;
}
static std::string show(const std::string& s) {             // for details: escape non-printables, abbreviate long strings
    std::string o;
    size_t lim = 160;
    for (size_t i = 0; i < s.size(); i++) {
        if (s.size() > lim && i == lim / 2) { char b[48]; snprintf(b, sizeof b, "...(%zu bytes)...", s.size() - lim); o += b; i = s.size() - lim / 2; }
        unsigned char ch = s[i];
        if (ch < 0x20 || ch >= 0x7f || ch == '\\') { char b[8]; snprintf(b, sizeof b, "\\x%02x", ch); o += b; } else o += (char)ch;
    }
    return o;
}

// ---------------------------------------------------------------- checks
static const size_t LIVE_LIMIT = PATH_MAX - 4;               // T <= LIVE_LIMIT: a legal path must be accepted

// check one forwarded path argument. returns false if something was reported
static void check_arg(seqx::Ctx& c, const Base& b, int slot, const char* path, size_t n, const Walk& w, const char* what) {
    bool rejected = R.null[slot];
    const std::string& f = R.p[slot];
    if (!rejected && !inside(b, f))
        c.fail("escape", "%s: base '%s' input '%s' forwarded as '%s' which is outside the base (min depth %d)", what, b.given.c_str(), show(std::string(path, n)).c_str(), show(f).c_str(), w.min_depth);
    if (!w.legal) return;
    size_t T = b.b0.size() + 1 + n;
    if (rejected) {
        if (T <= LIVE_LIMIT)
            c.fail(reject_class(w), "%s: base '%s' input '%s' never goes above the base (min depth %d, final depth %d) but was rejected (null path forwarded)", what, b.given.c_str(),
                   show(std::string(path, n)).c_str(), w.min_depth, w.final_depth);
    } else if (!intact(b, f, path, n))
        c.fail("legal-path-altered", "%s: base '%s' input '%s' forwarded as '%s', expected '%s/'+input", what, b.given.c_str(), show(std::string(path, n)).c_str(), show(f).c_str(), b.b0.c_str());
}

static void run1(seqx::Ctx& c, const Base& b, int op, const char* path, size_t n, const Walk& w) {
    R.reset();
    call1(b.fs, b.xfs, op, path);
    c.cls(seqx::mix(1, walk_class(w)));
    if (R.calls != 1) { c.fail(R.calls ? "forwarded-more-than-once" : "not-forwarded", "underlay called %d times", R.calls); if (!R.calls) return; }
    if (strcmp(R.op, OP1[op]) || R.npaths != 1) { c.fail("wrong-op-forwarded", "called %s, underlay saw %s with %d paths", OP1[op], R.op, R.npaths); return; }
    check_arg(c, b, 0, path, n, w, "path");
}
static void run2(seqx::Ctx& c, const Base& b, int op, const char* p1, size_t n1, const Walk& w1, const char* p2, size_t n2, const Walk& w2) {
    R.reset();
    call2(b.fs, op, p1, p2);
    c.cls(seqx::mix(seqx::mix(2 + (op == 2), walk_class(w1)), walk_class(w2)));
    if (R.calls != 1) { c.fail(R.calls ? "forwarded-more-than-once" : "not-forwarded", "underlay called %d times", R.calls); if (!R.calls) return; }
    if (strcmp(R.op, OP2[op]) || R.npaths != 2) { c.fail("wrong-op-forwarded", "called %s, underlay saw %s with %d paths", OP2[op], R.op, R.npaths); return; }
    if (op == 2) {      // symlink: first argument is the link content
        if (R.null[0] || R.p[0].size() != n1 || memcmp(R.p[0].data(), p1, n1))
            c.fail("symlink-content-altered", "content '%s' forwarded as '%s'%s", show(std::string(p1, n1)).c_str(), show(R.p[0]).c_str(), R.null[0] ? " (null)" : "");
    } else check_arg(c, b, 0, p1, n1, w1, "oldname");
    check_arg(c, b, 1, p2, n2, w2, "newname");
}

// ---------------------------------------------------------------- enumeration
static const char ALPHA[4] = {'/', '.', 'a', 'b'};
static inline void nth_string(uint64_t idx, int len, char* out) {        // idx in [0, 4^len), most significant first
    for (int i = len - 1; i >= 0; i--) { out[i] = ALPHA[idx & 3]; idx >>= 2; }
    out[len] = 0;
}

static std::string long_path(int pattern, size_t n) {
    static const char* const unit[] = {"a/", "aaaa", "/a", "./", "../", "a/../", "aaaa/", ".a/"};
    std::string u = unit[pattern], s;
    s.reserve(n + 8);
    while (s.size() < n) s += u;
    s.resize(n);
    return s;
}
static const char* const LONG_NAME[] = {"a/", "aaaa", "/a", "./", "../", "a/../", "aaaa/", ".a/"};
enum { NLONG = 8 };

static void seqx_enumerate(seqx::Ctx& c, bool thorough) {
    log_output = log_output_null;          // keep the formatting of the rejection messages, drop the bytes
    static RecordingFS rfs;
    static std::vector<Base> bases;
    if (bases.empty()) {
        for (const char* g : {"/base", "/", "/base/", "/a/b"}) {
            Base b; b.given = g; b.b0 = g; while (!b.b0.empty() && b.b0.back() == '/') b.b0.pop_back();
            std::vector<Comp> t; normalise(b.given, t); for (auto& x : t) b.comps.push_back(std::string(x.p, x.n));
            b.fs = new_subfs(&rfs, g, false);
            if (!b.fs) { fprintf(stderr, "new_subfs(%s) failed\n", g); abort(); }       // outside a case => machinery broken
            b.xfs = dynamic_cast<IFileSystemXAttr*>(b.fs);
            if (!b.xfs) { fprintf(stderr, "subfs has no xattr interface\n"); abort(); }
            bases.push_back(b);
        }
    }
    const int nb = (int)bases.size();
    char s1[32], s2[32];

    // 1. one-path operations: every string over {'/', '.', 'a', 'b'} up to L1 characters, every base, every operation
    //    all 29 operations up to 9 (quick) / 11 (thorough) chars, and at the longest length, 10 / 12 chars, a representative
    //    subset (every operation goes through the same PathCat): stat, open, mkdir, unlink, readlink, getxattr.
    const int L1 = thorough ? 12 : 10, L1_ALL_OPS = L1 - 1;
    static const bool subset[NOP1] = {1, 1, 0, 0, 1, 0, 1, 0, 0, 0, 0, 0, 0, 0, 0, 0, 0, 0, 1, 0, 0, 1};
    for (int len = 0; len <= L1; len++) {
        uint64_t count = 1ull << (2 * len);
        for (uint64_t idx = 0; idx < count; idx++) {
            nth_string(idx, len, s1);
            Walk w; bool have = false;
            for (int bi = 0; bi < nb; bi++)
                for (int op = 0; op < NOP1; op++) {
                    if (len > L1_ALL_OPS && !subset[op]) continue;
                    if (!c.begin("%s(\"%s\") base=%s", OP1[op], s1, bases[bi].given.c_str())) continue;
                    if (!have) { w = walk(s1, len); have = true; }
                    run1(c, bases[bi], op, s1, len, w);
                }
        }
    }

    // 2. two-path operations: every ordered pair of strings up to L2 characters
    const int L2 = thorough ? 6 : 5;
    for (int tot = 0; tot <= 2 * L2; tot++)                       // simplest first: by total length
        for (int la = std::max(0, tot - L2); la <= std::min(L2, tot); la++) {
            int lb = tot - la;
            uint64_t ca = 1ull << (2 * la), cb = 1ull << (2 * lb);
            for (uint64_t ia = 0; ia < ca; ia++) {
                nth_string(ia, la, s1);
                Walk w1 = walk(s1, la);
                for (uint64_t ib = 0; ib < cb; ib++) {
                    nth_string(ib, lb, s2);
                    Walk w2; bool have = false;
                    for (int bi = 0; bi < nb; bi++)
                        for (int op = 0; op < NOP2; op++) {
                            if (!c.begin("%s(\"%s\", \"%s\") base=%s", OP2[op], s1, s2, bases[bi].given.c_str())) continue;
                            if (!have) { w2 = walk(s2, lb); have = true; }
                            run2(c, bases[bi], op, s1, la, w1, s2, lb, w2);
                        }
                }
            }
        }

    // 3. long and over-long paths: unit strings repeated and cut at exactly n characters
    std::vector<size_t> lens = {255, 256, 1023, 1024, 4000};
    for (size_t n = PATH_MAX - 24; n <= PATH_MAX + 2; n++) lens.push_back(n);
    lens.push_back(2 * PATH_MAX); lens.push_back(65535); lens.push_back(65536 + PATH_MAX - 8); lens.push_back(70000);
    std::string lp; Walk lw;
    for (int pat = 0; pat < NLONG; pat++)
        for (size_t n : lens) {
            bool have = false;
            auto need = [&]() { if (!have) { lp = long_path(pat, n); lw = walk(lp.data(), lp.size()); have = true; } };
            for (int bi = 0; bi < nb; bi++) {
                for (int op = 0; op < NOP1; op++) {
                    if (!c.begin("%s(repeat(\"%s\") cut at %zu chars) base=%s", OP1[op], LONG_NAME[pat], n, bases[bi].given.c_str())) continue;
                    need();
                    run1(c, bases[bi], op, lp.c_str(), lp.size(), lw);
                }
                for (int op = 0; op < NOP2; op++) {
                    Walk ws = walk("a", 1);
                    if (c.begin("%s(repeat(\"%s\") cut at %zu chars, \"a\") base=%s", OP2[op], LONG_NAME[pat], n, bases[bi].given.c_str())) {
                        need(); run2(c, bases[bi], op, lp.c_str(), lp.size(), lw, "a", 1, ws);
                    }
                    if (c.begin("%s(\"a\", repeat(\"%s\") cut at %zu chars) base=%s", OP2[op], LONG_NAME[pat], n, bases[bi].given.c_str())) {
                        need(); run2(c, bases[bi], op, "a", 1, ws, lp.c_str(), lp.size(), lw);
                    }
                    if (c.begin("%s(repeat(\"%s\") cut at %zu chars, same) base=%s", OP2[op], LONG_NAME[pat], n, bases[bi].given.c_str())) {
                        need(); std::string cp = lp; run2(c, bases[bi], op, lp.c_str(), lp.size(), lw, cp.c_str(), cp.size(), lw);
                    }
                }
            }
        }
}

SEQX_MAIN("C20", "subfs",
          "every string over {'/','.','a','b'} up to 9 (quick) / 11 (thorough) chars x 29 one-path ops (incl. 8 xattr) x bases {/base, /, /base/, /a/b}, plus every "
          "10- / 12-char string x {stat, open, mkdir, unlink, readlink, getxattr} x 4 bases; "
          "every ordered pair of such strings up to 5/6 chars each x {rename, link, symlink} x 4 bases; 8 repeated-unit patterns cut at 36 lengths around PATH_MAX (255..70000) x all ops; "
          "reference = lexical depth walk; recorder sees exact forwarded strings; distinct = (one/two-path/symlink, component-kind sequence "
          "E/S/U/N/D2/D3, absolute, trailing slash, min depth capped -3, final depth capped -3..4)")
