// C05 asym_tso: the asymmetric run-queue lock (foreground vCPU vs. stealing vCPUs) under the store-buffer (x86-TSO) mode of the
// controlled scheduler. The foreground side is "store foreground_locked (release); load background_locked (acquire)" - a Dekker
// protocol that needs store->load ordering. Unity-includes thread.cpp to reach the class; plain OS threads, no photon runtime.
#include <thread/thread.cpp>
#include "mv_photon.h"
#include <string>
using namespace photon;

static asymmetric_spinLock* L; static std::atomic<int> inside;   // atomic: the increment is one indivisible hooked operation
static int fg_in, bg_in; static std::string logs;

static void fg(int rounds) {
    for (int i = 0; i < rounds; i++) {
        L->foreground_lock();
        if (inside.fetch_add(1) + 1 != 1) pmc_violation("asymmetric-lock-overlap", "foreground entered the critical section while the background thread is inside");
        fg_in++; mv_yield("fg in section");
        inside.fetch_sub(1);
        L->foreground_unlock();
        logs += 'F';
    }
}
static void bg(int rounds) {
    for (int i = 0; i < rounds; i++) {
        if (L->background_try_lock()) {
            if (inside.fetch_add(1) + 1 != 1) pmc_violation("asymmetric-lock-overlap", "background entered the critical section while the foreground thread is inside");
            bg_in++; mv_yield("bg in section");
            inside.fetch_sub(1);
            L->background_unlock();
            logs += 'B';
        } else logs += 'b';
    }
}

// config "<sc|tso>:<fg rounds>:<bg rounds>"
void pmc_run(const char* config) {
    bool tso = !strncmp(config, "tso", 3); int fr = 1, br = 1; sscanf(strchr(config, ':') + 1, "%d:%d", &fr, &br);
    asymmetric_spinLock lock; L = &lock; inside = fg_in = bg_in = 0; logs.clear();
    pmc_window(0);
    mv_init();
    mv_tso(tso);
    pmc_window(1);
    pthread_t a = mvp::spawn_os([fr] { fg(fr); }, "fg"), b = mvp::spawn_os([br] { bg(br); }, "bg");
    mvp::join(a); mvp::join(b);
    pmc_window(0);
    pmc_obs("%s", logs.c_str());
    mv_fini();
}

static const PmcConfig CFG[] = {
    {"sc:1:1",  3, {4,8}, {0,0}, {0,0}, {0,0}, "sequentially consistent interleavings: the protocol is correct"},
    {"sc:2:2",  3, {3,5}, {0,0}, {0,0}, {0,0}, ""},
    {"tso:1:1", 3, {2,3}, {0,0}, {1,2}, {3,4}, "x86-TSO: the foreground store may still sit in the store buffer when its load executes"},
    {"tso:2:1", 2, {2,3}, {0,0}, {1,2}, {3,4}, ""},
};
const PmcConfig* pmc_configs(int* n) { *n = sizeof CFG / sizeof CFG[0]; return CFG; }
const char* pmc_property(void) { return "C05"; }
const char* pmc_target(void) { return "asym_tso"; }
int main(int argc, char** argv) { return pmc_main(argc, argv); }
