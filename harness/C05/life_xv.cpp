// C05 life_xv: thread lifecycle, migration and work stealing under the controlled multi-vCPU scheduler.
// config "<w><a>:<threads of vcpu0>|<threads of vcpu1>[|...]"   w: 0 no stealing, 1 every vCPU ACTIVE|PASSIVE and every thread stealable
//        a: f harness stack allocator that poisons released stacks, d default allocator, p photon pooled allocator
// thread ops: y yield   z usleep(10us)   m migrate self to the next vCPU   s sleep until interrupted (usleep(-1))
//             (s sleeps 1 s of virtual time)   i<k> interrupt thread k   M<k> migrate thread k (must be READY on my vCPU) to the next vCPU
//             I<v> interrupt the main (joining) thread of vCPU v
//             a vCPU written X<k> has no threads of its own: its main thread spins (no photon yield) until thread k has been migrated to
//             it and then leaves at once, so vcpu_fini() itself has to run whatever sits in the standby queue
//             a leading 'n' makes the thread non-joinable. Every joinable thread is joined by its creating vCPU's main thread.
#include <photon/thread/thread.h>
#include <photon/thread/stack-allocator.h>
#include "mv_prog.h"
#include <atomic>
#include <vector>
#include <string>
#include <string.h>
using namespace photon;

struct PT { std::string ops; int os, idx; bool joinable; thread* th = nullptr; join_handle* jh = nullptr;
            int runs = 0, step = 0, on = -1; bool finished = false; bool joined = false; };
struct St {
    std::vector<PT> pts; int nos = 0; bool ws = false; char alloc = 'f';
    int exit_early[8] = {0}; std::atomic<int> migrated[16];
    vcpu_base* vcpus[8] = {nullptr}; thread* mains[8] = {nullptr}; std::atomic<int> main_gone[8];
    std::atomic<int> go{0}, ready{0}, done{0}, finished_os{0};
    std::string log;
};
static St* G;

static int my_vcpu() { auto v = get_vcpu(); for (int i = 0; i < G->nos; i++) if (G->vcpus[i] == v) return i; return -1; }

static void step(PT& p, char op) {
    int v = my_vcpu();
    if (p.on != -1) pmc_violation("two-vcpus-in-one-thread", "thread %d executes step %d on vCPU %d while vCPU %d is still inside its step", p.idx, p.step, v, p.on);
    p.on = v;
    mv_yield("inside a step");
    p.step++;
    p.on = -1;
    (void)op;
}

static void* entry(void* arg) {
    PT& p = *(PT*)arg;
    if (++p.runs != 1) pmc_violation("entry-ran-twice", "entry function of thread %d started %d times", p.idx, p.runs);
    size_t i = p.ops[0] == 'n' ? 1 : 0;
    int expect = 0;
    for (; i < p.ops.size(); i++) {
        char op = p.ops[i];
        if (p.step != expect) pmc_violation("step-repeated-or-skipped", "thread %d is at op %zu but its step counter is %d (expected %d): resumed from a stale context?", p.idx, i, p.step, expect);
        step(p, op); expect++;
        switch (op) {
            case 'y': thread_yield(); break;
            case 'p': { int n = pmc_choose(3, PMC_PROG, 0, "pad yields"); for (int kk = 0; kk < n; kk++) thread_yield(); break; }
            case 'q': { if (pmc_choose(2, PMC_PROG, 0, "pad yield")) thread_yield(); break; }
            case 'z': thread_usleep(10); break;
            case 's': thread_usleep(1000000); break;      // 1 s: an interrupt that arrives before the sleep began is (by design) not delivered
            case 'm': { int v = my_vcpu(); thread_migrate(CURRENT, G->vcpus[(v + 1) % G->nos]); break; }
            case 'i': { int k = p.ops[++i] - '0'; if (k < (int)G->pts.size() && G->pts[k].th && !G->pts[k].finished) thread_interrupt(G->pts[k].th, EINTR); break; }
            case 'I': { int k = p.ops[++i] - '0'; if (k < G->nos && G->mains[k] && !G->main_gone[k].load()) { thread_interrupt(G->mains[k], EINTR); G->log += G->pts[0].finished ? 'F' : 'r'; } break; }
            case 'M': { int k = p.ops[++i] - '0'; int v = my_vcpu(); if (k < (int)G->pts.size() && G->pts[k].th && !G->pts[k].finished) { int r = thread_migrate(G->pts[k].th, G->vcpus[(v + 1) % G->nos]); if (r == 0) G->migrated[k] = 1; } break; }
        }
    }
    if (p.step != expect) pmc_violation("step-repeated-or-skipped", "thread %d finished with step counter %d (expected %d)", p.idx, p.step, expect);
    p.finished = true; G->log += char('a' + p.idx); G->log += char('0' + my_vcpu());
    G->done++;
    return (void*)(uintptr_t)(1000 + p.idx);
}

static void on_deadlock(const char* dump) {
    std::string s; for (auto& p : G->pts) if (!p.finished) { s += char('0' + p.idx); s += ' '; }
    pmc_violation("thread-lost-or-stuck", "threads %snever finished: %s", s.c_str(), dump);
}

void pmc_run(const char* config) {
    St st; G = &st;
    st.ws = config[0] == '1'; st.alloc = config[1]; for (auto& x : st.main_gone) x = 0; for (auto& x : st.migrated) x = 0;
    std::string genprog;
    if (!strncmp(config + 3, "gen", 3)) {      // generated program: every combination of ops for the given vCPU layout, every arrival order
        pmc_window(1);
        genprog = mvprog::generate(config + 3, {"y", "z", "m", "M0", "M1", "M2", "i0", "i1", "i2", "I0", "s"});
        pmc_window(0);
        if (genprog.empty()) pmc_broken("bad generator spec %s", config);
        st.log = genprog + " ";
    }
    { std::string cur; int os = 0;
      for (const char* c = genprog.empty() ? config + 3 : genprog.c_str();; c++) {
          if (*c == ',' || *c == '|' || *c == 0) {
              if (!cur.empty() && cur[0] == 'X') { st.exit_early[os] = cur[1] - '0' + 1; cur.clear(); }
              if (!cur.empty()) { PT p; p.ops = cur; p.os = os; p.idx = st.pts.size(); p.joinable = cur[0] != 'n'; st.pts.push_back(p); cur.clear(); }
              if (*c == '|') os++;
              if (*c == 0) break;
          } else cur += *c;
      }
      st.nos = os + 1; }
    pmc_window(0);
    mv_init();
    if (st.alloc == 'f') mvp::use_fast_stacks(true);
    else if (st.alloc == 'p') use_pooled_stack_allocator();
    else set_photon_thread_stack_allocator();
    mv_on_deadlock = on_deadlock;
    uint64_t vflags = st.ws ? (VCPU_ENABLE_ACTIVE_WORK_STEALING | VCPU_ENABLE_PASSIVE_WORK_STEALING) : 0;
    std::vector<pthread_t> ts;
    for (int os = 0; os < st.nos; os++) {
        char nm[16]; snprintf(nm, sizeof nm, "vcpu%d", os);
        ts.push_back(mvp::spawn_vcpu([os] {
            G->vcpus[os] = get_vcpu(); G->mains[os] = CURRENT;
            uint64_t n0 = get_info(INFO_THREAD_NUM);
            for (auto& p : G->pts) if (p.os == os) {
                p.th = thread_create(entry, &p, 64 * 1024, 0, (p.joinable ? THREAD_JOINABLE : 0) | (G->ws ? THREAD_ENABLE_WORK_STEALING : 0));
                if (p.joinable) p.jh = (join_handle*)p.th;
            }
            G->ready++;
            while (G->go.load() == 0) {}
            if (G->exit_early[os]) {
                // leave as soon as the thread has arrived in this vCPU's standby queue: vcpu_fini() must run it to completion
                while (G->migrated[G->exit_early[os] - 1].load() == 0) {}
                G->main_gone[os] = 1;
                if (++G->finished_os == G->nos) pmc_window(0);
                return;
            }
            // the creating vCPU joins its joinable threads (wherever they ended up running)
            for (auto& p : G->pts) if (p.os == os && p.joinable) {
                uint64_t sw0 = *(uint64_t*)&get_vcpu()->switch_count;
                void* r = thread_join(p.jh);
                G->log += (*(uint64_t*)&get_vcpu()->switch_count != sw0) ? 'J' : 'j';     // did the joiner have to block?
                if (p.joined) pmc_violation("joined-twice", "thread %d", p.idx);
                p.joined = true;
                if (!p.finished) pmc_violation("join-before-finish", "thread_join(%d) returned before its entry function returned", p.idx);
                if ((uintptr_t)r != (uintptr_t)(1000 + p.idx)) pmc_violation("join-wrong-value", "thread_join(%d) returned %lu", p.idx, (unsigned long)(uintptr_t)r);
            }
            // keep this vCPU alive (it may have to run migrated / stolen threads) until every thread is done
            int rounds = 0;
            while (G->done.load() < (int)G->pts.size()) { thread_usleep(5ull * 1000 * 1000); if (++rounds > 3) { mv_on_deadlock("threads did not finish within 15 s of virtual time"); } }
            G->main_gone[os] = 1;      // no interrupts into the epilogue
            if (++G->finished_os == G->nos) pmc_window(0);
            while (G->finished_os.load() < G->nos) thread_usleep(5ull * 1000 * 1000);
            // vCPU thread counts back to the initial value (main + idler)
            thread_usleep(100);    // let non-joinable threads that finished on this vCPU be disposed by the next switch
            uint64_t n1 = get_info(INFO_THREAD_NUM);
            if (n1 != n0) pmc_violation("thread-count", "vCPU %d has %llu threads at quiescence, started with %llu", os, (unsigned long long)n1, (unsigned long long)n0);
        }, vflags, nm));
    }
    while (st.ready.load() < st.nos) {}
    pmc_window(1);
    st.go = 1;
    for (auto t : ts) mvp::join(t);
    pmc_window(0);
    for (auto& p : st.pts) {
        if (p.runs != 1 || !p.finished) pmc_violation("thread-lost-or-stuck", "thread %d: runs=%d finished=%d", p.idx, p.runs, (int)p.finished);
        if (p.joinable && !p.joined) pmc_violation("never-joined", "thread %d", p.idx);
    }
    pmc_obs("%s", st.log.c_str());
    mv_fini(); G = nullptr;
}

static const PmcConfig CFG[] = {
    {"0f:yy|yy",          3, {1,2}, {0,0}, {0,0}, {0,0}, "baseline: independent vCPUs"},
    {"0f:m|",             3, {2,3}, {0,0}, {0,0}, {0,0}, "self-migration to an idle vCPU"},
    {"0f:my,y|y",         3, {1,2}, {0,0}, {0,0}, {0,0}, "migration with neighbours"},
    {"0f:M1y,yy|",        3, {1,2}, {0,0}, {0,0}, {0,0}, "migrate another READY thread"},
    {"0f:s|i0",           3, {2,3}, {0,0}, {0,0}, {0,0}, "cross-vCPU interrupt of a sleeper, then join"},
    {"0f:ny,ny|nm",       3, {1,2}, {0,0}, {0,0}, {0,0}, "non-joinable threads: stack released exactly once after finish"},
    {"0f:z|",             3, {1,2}, {0,0}, {0,0}, {0,0}, "thread finishing while its vCPU's main joins"},
    {"0f:yI0y,y|",        3, {1,2}, {0,0}, {0,0}, {0,0}, "the joiner is interrupted while it waits in thread_join (same vCPU)"},
    {"0f:yy|I0y",         3, {2,3}, {0,0}, {0,0}, {0,0}, "the joiner is interrupted from another vCPU"},
    {"0f:mzy|yI0",        2, {2,2}, {0,0}, {0,0}, {0,0}, "joiner interrupted while its thread runs elsewhere"},
    {"0f:M1,y|X1",        3, {1,2}, {0,0}, {0,0}, {0,0}, "a thread migrated into a vCPU that goes straight into vcpu_fini(): it must still run"},
    {"0f:M1M2,y,ny|X2",   3, {1,2}, {0,0}, {0,0}, {0,0}, ""},
    {"0f:mym|ymy",        2, {1,2}, {0,0}, {0,0}, {0,0}, "ping-pong migration"},
    {"1f:m,yyy|",         3, {1,2}, {0,0}, {0,0}, {0,0}, "stealing: vCPU1 receives a migrated thread, then steals from vCPU0's run queue"},
    {"1f:m,yy,yy|",       3, {1,2}, {0,0}, {0,0}, {0,0}, ""},
    {"1f:m,zy|",          3, {1,2}, {0,0}, {0,0}, {0,0}, "stealer vs a sleeper that wakes (must not be stolen while in the sleep heap)"},
    {"1f:mm,y|y",         2, {1,2}, {0,0}, {0,0}, {0,0}, "migrated thread in the standby queue can be stolen"},
    {"1f:m,ny,ny|",       2, {1,2}, {0,0}, {0,0}, {0,0}, "stolen non-joinable threads"},
    {"1d:m,yyy|",         2, {1,1}, {0,0}, {0,0}, {0,0}, "default allocator"},
    {"1p:m,yyy|",         2, {1,1}, {0,0}, {0,0}, {0,0}, "pooled allocator"},
    // generated programs last: they take whatever budget the configs above leave
    {"0f:gen2|1x1",       3, {0,1}, {0,0}, {0,0}, {0,0}, "generated: 2+1 threads on two vCPUs, one op each from {y,z,m,M0-2,i0-2,I0,s}, every arrival order; thorough: + one preemption"},
    {"0f:gen1|1x2",       2, {0,0}, {0,0}, {0,0}, {0,0}, "generated: 1+1 threads, up to 2 ops each"},
    {"1f:gen2|1x1",       3, {0,0}, {0,0}, {0,0}, {0,0}, "... with work stealing"},
    {"0f:gen2|1x2",       2, {0,0}, {0,0}, {0,0}, {0,0}, ""},
    {"0p:gen2|1x1",       2, {0,0}, {0,0}, {0,0}, {0,0}, "pooled allocator"},
};
const PmcConfig* pmc_configs(int* n) { *n = sizeof CFG / sizeof CFG[0]; return CFG; }
const char* pmc_property(void) { return "C05"; }
const char* pmc_target(void) { return "life_xv"; }
int main(int argc, char** argv) { return pmc_main(argc, argv); }
