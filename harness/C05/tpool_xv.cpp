// C05 tpool_xv: threads created through a ThreadPool (thread/thread-pool.cpp: stub / wait_for_work / after_work_done / join handshake
// on a spinlock + condition variable per pooled thread) under the controlled multi-vCPU scheduler.
// config "<capacity>:<prog>"   prog in mv_prog.h notation; ops of a creator (photon thread):
//   c<b> pool->thread_create(task)             j<b> pool->thread_create_ex(task, joinable)      J pool->join(most recent joinable not yet joined)
//   I<k> thread_interrupt(creator k) if it is still running (a stray EINTR landing on a creator / joiner)
//   y thread_yield     p 0..2 padding yields (explorer's choice: arrival orders)                task body b: n nop, y yield, z usleep(10 us)
// After every creator is done the pool is deleted by vCPU 0 (delete_thread_pool joins running workers and stops the pooled threads).
// Oracle: every created task runs exactly once to completion, in a photon thread; join() returns exactly once and only after the task's
// entry function returned; nothing runs after the pool is gone; the vCPUs' thread counts return to their initial values; nobody blocked forever.
#include <photon/thread/thread.h>
#include <photon/thread/thread-pool.h>
#include "mv_prog.h"
#include <string.h>
using namespace photon;

struct Task { int id; char body; int started = 0; bool finished = false; bool joinable = false; int joined = 0; TPControl* ctrl = nullptr; };
struct St {
    mvprog::Prog prog; ThreadPoolBase* pool = nullptr; std::vector<Task*> tasks; std::string log;
    bool pool_deleted = false; uint64_t n0[8] = {0};
};
static St* G;

static void* task_entry(void* arg) {
    Task* t = (Task*)arg;
    if (G->pool_deleted) pmc_violation("task-after-pool-deleted", "task %d runs after delete_thread_pool returned", t->id);
    if (++t->started != 1) pmc_violation("entry-ran-twice", "task %d started %d times", t->id, t->started);
    if (!CURRENT) pmc_violation("task-outside-photon", "task %d", t->id);
    mv_yield("in task");
    if (t->body == 'y') thread_yield(); else if (t->body == 'z') { mv_register_deadline(mv_now() + 10); thread_usleep(10); }
    mv_yield("in task 2");
    if (G->pool_deleted) pmc_violation("pool-deleted-before-task-finished", "delete_thread_pool returned while task %d was still running", t->id);
    t->finished = true; G->log += 'T'; G->log += char('0' + t->id);
    return nullptr;
}

static void body(mvprog::PT& p) {
    std::vector<Task*> mine;       // joinable tasks of this creator not yet joined
    for (size_t i = 0; i < p.ops.size(); i++) {
        char op = p.ops[i];
        if (op == 'y') { thread_yield(); continue; }
        if (op == 'p') { int n = pmc_choose(3, PMC_PROG, 0, "pad yields"); for (int k = 0; k < n; k++) thread_yield(); continue; }
        if (op == 'I') { int k = p.ops[++i] - '0'; auto& q = G->prog.pts[k]; G->log += 'I'; G->log += q.done ? 'd' : 'r'; if (q.th && !q.done) thread_interrupt(q.th, EINTR); continue; }
        if (op == 'W') {      // a stray interrupt lands on the pooled worker of this creator's oldest un-joined joinable task (which may have finished already)
            if (!mine.empty() && mine.front()->ctrl->th) { G->log += 'W'; thread_interrupt(mine.front()->ctrl->th, EINTR); }
            continue;
        }
        if (op == 'c' || op == 'j') {
            Task* t = new Task; t->id = G->tasks.size(); t->body = p.ops[++i]; t->joinable = op == 'j'; G->tasks.push_back(t);
            if (op == 'c') { thread* th = G->pool->thread_create(task_entry, t); if (!th) pmc_violation("create-failed", "task %d", t->id); }
            else { t->ctrl = G->pool->thread_create_ex(task_entry, t, true); if (!t->ctrl) pmc_violation("create-failed", "task %d", t->id); mine.push_back(t); }
            G->log += char('a' + p.idx); G->log += op;
        } else if (op == 'J') {
            if (mine.empty()) continue;
            Task* t = mine.back(); mine.pop_back();
            G->pool->join(t->ctrl);
            if (++t->joined != 1) pmc_violation("joined-twice", "task %d", t->id);
            if (!t->finished) pmc_violation("join-before-finish", "join of task %d returned before its entry function returned (started=%d)", t->id, t->started);
            G->log += char('a' + p.idx); G->log += 'J';
        }
    }
    // a joinable pooled thread must be joined (otherwise its worker waits for the joiner forever): join the rest
    while (!mine.empty()) { Task* t = mine.back(); mine.pop_back(); G->pool->join(t->ctrl); t->joined++; if (!t->finished) pmc_violation("join-before-finish", "join of task %d returned early", t->id); }
}

static void on_deadlock(const char* dump) {
    std::string s; for (auto t : G->tasks) if (!t->finished) { s += std::to_string(t->id); s += t->started ? "(started) " : "(never started) "; }
    pmc_violation("thread-lost-or-stuck", "tasks not finished: %s; %s", s.c_str(), dump);
}

void pmc_run(const char* config) {
    St st; G = &st; int cap = config[0] - '0';
    st.prog.parse(config + 2);
    pmc_window(0);
    mv_init(); mvp::use_fast_stacks(true);
    mv_on_deadlock = on_deadlock;
    st.prog.on_vcpu_start = [&](int os) { st.n0[os] = get_info(INFO_THREAD_NUM); if (os == 0) st.pool = new_thread_pool(cap, 64 * 1024); };
    // the last creator to finish deletes the pool (inside the exploration window: deletion races with tasks still running)
    std::atomic<int> left{(int)st.prog.pts.size()};
    st.prog.on_vcpu_end = [&](int os) {
        thread_usleep(100);      // pooled threads that were told to die exit at their next run; non-joinable ones are disposed by the next switch
        uint64_t n1 = get_info(INFO_THREAD_NUM);
        // n0 was sampled before this vCPU created its program threads; they are joined by now
        if (n1 != st.n0[os]) pmc_violation("thread-count", "vCPU %d has %llu threads after the pool is gone, started with %llu", os, (unsigned long long)n1, (unsigned long long)st.n0[os]);
    };
    st.prog.run([&](mvprog::PT& p) {
        body(p);
        if (--left == 0) {
            delete_thread_pool(st.pool); st.pool = nullptr; st.pool_deleted = true; G->log += 'D';
            for (auto t : st.tasks) if (!t->finished) pmc_violation("pool-deleted-before-task-finished", "delete_thread_pool returned but task %d has not finished (started=%d)", t->id, t->started);
        }
    });
    for (auto t : st.tasks) {
        if (t->started != 1 || !t->finished) pmc_violation("thread-lost-or-stuck", "task %d: started=%d finished=%d", t->id, t->started, (int)t->finished);
        if (t->joinable && t->joined != 1) pmc_violation("never-joined", "task %d joined %d times", t->id, t->joined);
    }
    pmc_obs("%s", st.log.c_str());
    for (auto t : st.tasks) delete t;
    mv_fini(); G = nullptr;
}

static const PmcConfig CFG[] = {
    {"1:cn",             3, {0,0}, {0,0}, {0,0}, {0,0}, "one pooled thread, one task"},
    {"1:cycy",           3, {0,0}, {0,0}, {0,0}, {0,0}, "second create finds the pool empty (first task still running): a second pooled thread is constructed and later destroyed by put()"},
    {"1:pjypJ,pjnpJ",    3, {0,0}, {0,0}, {0,0}, {0,0}, "one vCPU: joinable tasks, every arrival order of creators, tasks and joiners"},
    {"2:pjzpJ,pcy,pjnJ", 3, {0,0}, {0,0}, {0,0}, {0,0}, ""},
    {"1:jyJ|jnJ",        3, {1,2}, {0,0}, {0,0}, {0,0}, "two vCPUs share the pool: join handshake (joiner first / worker first) across vCPUs"},
    {"2:cy,jzJ|cn",      3, {1,2}, {0,0}, {0,0}, {0,0}, ""},
    {"1:jy|cn",          3, {1,2}, {0,0}, {0,0}, {0,0}, "pool deletion has to join a still running joinable worker"},
    {"2:jnpWpjypJpJ",    3, {0,0}, {0,0}, {0,0}, {0,0}, "the same with every arrival order"},
    {"1:pjypJ,pI0",      3, {0,0}, {0,0}, {0,0}, {0,0}, "a stray interrupt lands on the joiner (every arrival order)"},
    {"1:jzJ|yI0",        3, {1,2}, {0,0}, {0,0}, {0,0}, "... from another vCPU"},
    {"0:cy,jnJ",         3, {0,0}, {0,0}, {0,0}, {0,0}, "capacity 0: plain threads"},
    {"2:jyJjnJ|jzJ|cy",  2, {1,2}, {0,0}, {0,0}, {0,0}, "three vCPUs"},
};
const PmcConfig* pmc_configs(int* n) { *n = sizeof CFG / sizeof CFG[0]; return CFG; }
const char* pmc_property(void) { return "C05"; }
const char* pmc_target(void) { return "tpool_xv"; }
int main(int argc, char** argv) { return pmc_main(argc, argv); }
