// C08 wp_xv: WorkPool under the controlled scheduler. The pool's worker std::threads are captured by the interposed
// pthread_create; photon::init()/fini() (called by the workers) are provided by the harness: vCPU + model event engine.
// config "<vcpus><mode><ring>:<submitter ops>|<submitter ops>"   mode: n = -1 (inline), t = 0 (thread per task), p = pool of 2
//   an upper-case mode (N/T/P) adds one worker vCPU that entered through join_current_vcpu_into_workpool()
//   submitters: photon threads on the harness vCPU (default) or a plain OS thread ('@').  ops: c<b> call()  a<b> async_call()
//   i<k> thread_interrupt(submitter k) if it is still running (a stray EINTR landing on a caller blocked in call())
//   task body b: n nop, y yield, z usleep(10us).   After all submitters are done the pool is destroyed (racing with async tasks).
#include <photon/photon.h>
#include <photon/thread/workerpool.h>
#include <photon/thread/thread11.h>
#include "mv_prog.h"
#include <string.h>
using namespace photon;

// ---- environment seam: the worker threads' photon::init / fini
namespace photon {
int init(uint64_t, uint64_t, const PhotonOptions&) { mv_set_name("worker"); mvp::vcpu_begin(0); return 0; }
int fini() { mvp::vcpu_end(); return 0; }
}

struct Task { int id; char body; int executed = 0; bool finished = false; bool async = false; int deleted = 0; };
struct St { WorkPool* pool = nullptr; mvprog::Prog prog; std::vector<Task*> tasks; bool pool_destroyed = false; std::string log; int nworkers = 0; };
static St* G;

static void run_body(Task* t) {
    if (G->pool_destroyed) pmc_violation("task-after-pool-destroyed", "task %d runs after ~WorkPool returned", t->id);
    if (++t->executed != 1) pmc_violation("task-executed-twice", "task %d executed %d times", t->id, t->executed);
    if (!photon::CURRENT) pmc_violation("task-outside-photon", "task %d not in a photon thread", t->id);
    mv_yield("in task");
    if (t->body == 'y') thread_yield(); else if (t->body == 'z') { mv_register_deadline(mv_now() + 10); thread_usleep(10); }
    mv_yield("in task 2");
    if (G->pool_destroyed) pmc_violation("pool-destroyed-before-task-finished", "~WorkPool returned while task %d was still running", t->id);
    t->finished = true;
    G->log += 'T'; G->log += char('0' + t->id);
}
struct AsyncTask {
    Task* t;
    void operator()() { run_body(t); }
    ~AsyncTask() { if (++t->deleted != 1) pmc_violation("async-task-deleted-twice", "task %d", t->id); if (!t->finished) pmc_violation("async-task-deleted-before-run", "task %d", t->id); }
};

static void body(mvprog::PT& p) {
    for (size_t i = 0; i < p.ops.size(); i++) {
        if (p.ops[i] == 'p') { int n = pmc_choose(3, PMC_PROG, 0, "pad yields"); for (int k = 0; k < n; k++) thread_yield(); continue; }
        if (p.ops[i] == 'q') { if (pmc_choose(2, PMC_PROG, 0, "pad yield")) thread_yield(); continue; }
        if (p.ops[i] == 'i') { int k = p.ops[++i] - '0'; if (k < (int)G->prog.pts.size()) { auto& q = G->prog.pts[k]; G->log += 'i'; G->log += q.done ? 'd' : 'r'; if (q.th && !q.done && !q.plain_os) thread_interrupt(q.th, EINTR); } continue; }
        char op = p.ops[i]; char b = p.ops[++i];
        Task* t = new Task; t->id = G->tasks.size(); t->body = b; G->tasks.push_back(t);
        if (op == 'c') {
            if (p.plain_os) pmc_broken("call() from an OS thread needs StdContext (not driven)");
            G->pool->call([t] { run_body(t); });
            if (!t->finished || t->executed != 1) pmc_violation("call-returned-early", "call() returned but task %d finished=%d executed=%d", t->id, (int)t->finished, t->executed);
            G->log += 'c';
        } else {
            t->async = true;
            G->pool->async_call(new AsyncTask{t});
            G->log += 'a';
        }
    }
}

static void on_deadlock(const char* dump) { pmc_violation("deadlock", "work pool user or worker blocked forever: %s", dump); }

void pmc_run(const char* config) {
    St st; G = &st;
    int nv = config[0] - '0'; char mc = config[1] | 0x20; bool joined = config[1] != mc;
    int mode = mc == 'n' ? -1 : mc == 't' ? 0 : 2; int ring = config[2] - '0';
    pthread_t joined_thread = 0;
    pmc_window(1);     // generated programs are explorer choices
    if (st.prog.parse_or_generate(config + 4, {"cn", "cy", "cz", "an", "ay", "az", "i0", "i1"})) st.log = st.prog.generated + " ";
    pmc_window(0);
    st.nworkers = nv;
    pmc_window(0);
    mv_init(); mvp::use_fast_stacks(true);
    mv_on_deadlock = on_deadlock;
    // the pool is created by vCPU 0 before the start barrier and destroyed by it after every submitter is done
    st.prog.on_vcpu_start = [&](int os) {
        if (os != 0) return;
        st.pool = new WorkPool(nv, 0, 0, mode, ring);
        if (joined) {       // an external vCPU joins the pool; submitting starts once it is registered (anything else is a user error)
            WorkPool* pool = st.pool;
            joined_thread = mvp::spawn_vcpu([pool] { pool->join_current_vcpu_into_workpool(); }, 0, "joined");
            while (pool->get_vcpu_num() < nv + 1) mv_yield("waiting for the joined vCPU");
        }
    };
    // destruction races with async tasks still queued/running: keep it inside the exploration window
    st.prog.on_vcpu_end = nullptr;
    bool first_vcpu_is_plain = st.prog.pts.empty() ? false : st.prog.pts[0].plain_os;
    if (first_vcpu_is_plain) pmc_broken("first submitter group must be a vCPU");
    // body wrapper: the last submitter of vCPU 0 destroys the pool
    std::atomic<int> left{(int)st.prog.pts.size()};
    st.prog.run([&](mvprog::PT& p) {
        body(p);
        if (--left == 0) {
            // everybody submitted: destroy the pool from a photon thread while async tasks may still be in flight
            if (p.plain_os) { /* destroyed below by main */ }
            else { delete st.pool; st.pool = nullptr; st.pool_destroyed = true; G->log += 'D'; }
        }
    });
    if (st.pool) { // last submitter was the OS thread: destroy from a fresh vCPU
        pthread_t t = mvp::spawn_vcpu([&] { delete st.pool; st.pool = nullptr; st.pool_destroyed = true; }, 0, "destroyer"); mvp::join(t);
    }
    if (joined) mvp::join(joined_thread);
    for (auto t : st.tasks) {
        if (t->executed != 1 || !t->finished) pmc_violation("task-lost", "task %d (%s) executed=%d finished=%d after the pool was destroyed", t->id, t->async ? "async" : "call", t->executed, (int)t->finished);
        if (t->async && t->deleted != 1) pmc_violation("async-task-not-deleted", "task %d deleted %d times", t->id, t->deleted);
    }
    pmc_obs("%s", st.log.c_str());
    for (auto t : st.tasks) delete t;
    mv_fini(); G = nullptr;
}

static const PmcConfig CFG[] = {
    {"1n1:cn",          3, {2,3}, {0,0}, {0,0}, {0,0}, "one worker, inline mode, one call"},
    {"1t1:cy",          3, {2,3}, {0,0}, {0,0}, {0,0}, "thread per task"},
    {"1p1:cz",          3, {2,3}, {0,0}, {0,0}, {0,0}, "pooled threads"},
    {"1t1:an",          3, {2,3}, {0,0}, {0,0}, {0,0}, "async task racing with pool destruction"},
    {"1t1:ayaz",        3, {2,2}, {0,0}, {0,0}, {0,0}, "ring of 1 slot smaller than the burst"},
    {"1t2:cy,az",       3, {2,2}, {0,0}, {0,0}, {0,0}, "two submitters"},
    {"2t1:cy,cz",       3, {1,2}, {0,0}, {0,0}, {0,0}, "two workers"},
    {"1t1:an|@an",      3, {1,2}, {0,0}, {0,0}, {0,0}, "OS-thread submitter"},
    {"0T1:az",          3, {2,3}, {0,0}, {0,0}, {0,0}, "only worker is a joined vCPU; async sleeping task vs destruction"},
    {"0P1:ayaz",        3, {1,2}, {0,0}, {0,0}, {0,0}, "joined vCPU, pooled threads"},
    {"1T1:azaz",        3, {1,2}, {0,0}, {0,0}, {0,0}, "owned + joined worker"},
    {"1t1:cz,i0",       3, {1,2}, {0,0}, {0,0}, {0,0}, "a stray interrupt lands on a caller blocked in call(): call() must still wait for its task"},
    {"1p1:cy,yi0",      3, {1,1}, {0,0}, {0,0}, {0,0}, ""},
    {"1n1:ayan",        2, {1,2}, {0,0}, {0,0}, {0,0}, ""},
    {"2p2:cyaz,azcn",   2, {1,1}, {0,0}, {0,0}, {0,0}, ""},
    // generated programs last: they take whatever budget the configs above leave
    {"1t1:gen2x2",      3, {0,0}, {0,0}, {0,0}, {0,0}, "generated: 2 submitters x up to 2 tasks from {call,async} x {nop,yield,sleep}, every arrival order, ring of 1"},
    {"1p2:gen3x1",      3, {0,0}, {0,0}, {0,0}, {0,0}, ""},
    {"0T1:gen2x2",      3, {0,0}, {0,0}, {0,0}, {0,0}, "... only worker is a joined vCPU"},
    {"2n1:gen2x2",      2, {0,0}, {0,0}, {0,0}, {0,0}, ""},
    {"1t1:gen2x1",      2, {1,1}, {0,0}, {0,0}, {0,0}, "... one op each, one preemption"},
};
const PmcConfig* pmc_configs(int* n) { *n = sizeof CFG / sizeof CFG[0]; return CFG; }
const char* pmc_property(void) { return "C08"; }
const char* pmc_target(void) { return "wp_xv"; }
int main(int argc, char** argv) { return pmc_main(argc, argv); }
