// C03 cv_xv: condition_variable with mutex and spinlock under the controlled multi-vCPU scheduler.
// ops (per photon thread):  W single-shot waiter (lock; wait(lock); unlock)   P predicate waiter (while(!pred) wait)
//   T single-shot timed waiter (40us)   N lock;pred=1;unlock;notify_one   A lock;pred=1;unlock;notify_all
//   i<k> thread_interrupt(program thread k, EINTR)
//   h lock;pred=1;notify_one;yield;yield;unlock   n lock;pred=1;notify_one;unlock (inside)   a ... notify_all inside      u notify_one without touching the lock   y yield
#define protected public
#define private public
#include <photon/thread/thread.h>
#undef protected
#undef private
#include "mv_prog.h"
#include <string.h>
#include <algorithm>
using namespace photon;
static const uint64_t TMO = 40, LONG = 1000000;

struct St {
    bool use_mutex; mutex m{2}; spinlock s; condition_variable cv;
    bool pred = false;
    mvprog::Prog prog;
    // oracle state, all updated while holding the user lock
    bool begun[16] = {false}, returned[16] = {false}, owed_all[16] = {false}, timed[16] = {false};
    int never_woken = 0;
    int ret[16]; int owed_one = 0; std::string log; bool woken[16] = {false};
    int legit_intr[16] = {0}, any_intr[16] = {0};   // interrupts sent to k while it was waiting and not yet notified / at all
    bool overlap[16] = {false}; std::vector<int> pending_ids;     // notify_one notifiers whose snapshot..notify span overlapped another one's: the per-call claim is void (the aggregate claim in final_oracle stays)
    int pending_one = 0;       // notify_one notifiers that have taken their snapshot (under the lock) but not yet notified: each may take one of the waiters a later notifier counted
};
static St* G;
static void LOCK() {
    if (!G->use_mutex) { G->s.lock(); return; }
    for (int k = 0; k < 8; k++) { if (G->m.lock() == 0) return; if (errno != EINTR) break; }      // an interrupt op may land while we queue on the user's mutex: retry
    pmc_violation("user-lock-failed", "mutex lock failed (errno %d)", errno);
}
static void UNLOCK() { if (G->use_mutex) G->m.unlock(); else G->s.unlock(); }
static bool HELD() { return G->use_mutex ? G->m.owner.load() == CURRENT : G->s.locked(); }
static int WAIT(Timeout t) { return G->use_mutex ? G->cv.wait(G->m, t) : G->cv.wait(G->s, t); }

// called by a notifier right after it acquired the lock: who is owed a wake-up by this notification?
static int snapshot(bool all, bool count_only = false) {
    int n = 0, fresh = -1;
    for (int k = 0; k < 16; k++) if (G->begun[k] && !G->returned[k] && !G->timed[k] && !G->woken[k]) {
        n++;
        if (all) G->owed_all[k] = true; else if (!G->owed_all[k] && fresh < 0) fresh = k;
    }
    // a timed waiter in the queue may legitimately take (or miss, by timing out) a notify_one: no claim is made then
    bool timed_waiting = false; for (int k = 0; k < 16; k++) if (G->begun[k] && !G->returned[k] && G->timed[k]) timed_waiting = true;
    if (!all && !count_only && fresh >= 0 && !timed_waiting) {
        int avail = 0; for (int k = 0; k < 16; k++) if (G->begun[k] && !G->returned[k] && !G->timed[k] && !G->owed_all[k] && !G->woken[k]) avail++;
        if (G->owed_one < avail) G->owed_one++;
    }
    return n;
}

static void body(mvprog::PT& p) {
    int me = p.idx;
    for (size_t oi = 0; oi < p.ops.size(); oi++) {
        char op = p.ops[oi];
        if (op == 'y') { thread_yield(); continue; }
        if (op == 'i') {
            int k = p.ops[++oi] - '0';
            if (k < (int)G->prog.pts.size() && G->prog.pts[k].th && !G->prog.pts[k].done) {
                G->any_intr[k]++;
                if (G->begun[k] && !G->returned[k] && !G->woken[k]) { G->legit_intr[k]++; G->timed[k] = true; }     // it is waiting and nobody notified it yet: this may end its wait (like a timed waiter it makes no claims from now on)
                thread_interrupt(G->prog.pts[k].th, EINTR);
            }
            G->log += char('a' + me); G->log += 'i'; p.result += "i";
            continue;
        }
        if (op == 'p') { int npad = pmc_choose(3, PMC_PROG, 0, "pad yields"); for (int kk = 0; kk < npad; kk++) thread_yield(); continue; }   // every arrival order on one vCPU
        if (op == 'q') { if (pmc_choose(2, PMC_PROG, 0, "pad yield")) thread_yield(); continue; }
        if (op == 'W' || op == 'T' || op == 'P') {
            LOCK();
            int r = 0; int e = 0; uint64_t t0 = mv_now();
            if (op == 'P') {
                while (!G->pred) { G->begun[me] = true; G->woken[me] = false; r = WAIT(Timeout()); if (r != 0) break; }
                G->begun[me] = true; G->returned[me] = true;
            } else {
                G->begun[me] = true; G->timed[me] = (op == 'T'); pmc_log("  [+%llu] T%d %c begins to wait", (unsigned long long)(mv_now() - MV_T0), me, op);
                if (op == 'T') mv_register_deadline(mv_now() + TMO);
                errno = 0;
                // the "untimed" single-shot waiter waits 1 s of virtual time: a legitimately missed notification then ends the run
                // cleanly (same verdict as "blocked forever", but the process can be reused for the next execution)
                r = WAIT(op == 'T' ? Timeout(TMO) : Timeout(LONG));
                e = errno;
                if (op == 'W' && r != 0 && e == ETIMEDOUT && mv_now() >= t0 + LONG) {
                    // == blocked forever: must not have been owed a notification
                    if (G->owed_all[me]) pmc_violation("lost-notification", "waiter %d began waiting before a notify_all notifier took the lock, yet it was never woken", me);
                    G->never_woken++;
                    G->log += char('a' + me); G->log += 'X'; p.result += "X";
                    G->begun[me] = false;          // not counted as a notified waiter
                    if (!HELD()) pmc_violation("wait-returned-without-lock", "wait() timed out for thread %d but the lock is not held", me);
                    UNLOCK();
                    continue;
                }
                G->returned[me] = true; pmc_log("  [+%llu] T%d wait returned %d", (unsigned long long)(mv_now() - MV_T0), me, r);
            }
            if (!HELD()) pmc_violation("wait-returned-without-lock", "wait() returned %d to thread %d but the lock is not held", r, me);
            G->ret[me] = r;
            if (r != 0 && e == EINTR && G->any_intr[me]) {
                // interrupted: legitimate only if the interrupt arrived while this thread was waiting and had not been notified yet
                // (a notification that was already delivered must not be turned into a failure by a later interrupt). One vCPU only:
                // across vCPUs the harness cannot order the interrupt against the notification.
                if (G->prog.nos == 1 && G->legit_intr[me] == 0)
                    pmc_violation("notification-overwritten-by-interrupt", "wait() by thread %d returned -1/EINTR although every interrupt sent to it came after it had been notified (or before it waited)", me);
                G->timed[me] = true;      // from here on this waiter makes no claims (it left by itself)
            } else
            if (r != 0) {
                if (!(op == 'T' && e == ETIMEDOUT && mv_now() >= t0 + TMO))
                    pmc_violation("wait-failed-without-reason", "wait() by thread %d (op %c) returned %d errno=%d at +%llu us", me, op, r, e, (unsigned long long)(mv_now() - t0));
            }
            G->log += char('a' + me); G->log += (r == 0 ? '1' : 't');
            p.result += (r == 0 ? "1" : "t");
            UNLOCK();
            continue;
        }
        // notifiers ('h': notify inside the lock and keep holding it across two yields, so that the woken waiter's re-lock is contended)
        bool hold = (op == 'h');
        bool inside = (op == 'n' || op == 'a' || hold), all = (op == 'A' || op == 'a');
        int expect = 0;
        if (op != 'u') { LOCK(); G->pred = true; expect = snapshot(all); if (!all) { expect = std::max(0, expect - G->pending_one); G->pending_one++; if (!G->pending_ids.empty()) { G->overlap[me] = true; for (int id : G->pending_ids) G->overlap[id] = true; } G->pending_ids.push_back(me); } pmc_log("  [+%llu] T%d %c took the lock: expect=%d", (unsigned long long)(mv_now() - MV_T0), me, op, expect); if (!inside) UNLOCK(); }
        else expect = snapshot(false, true);
        if (all) {
            int n = G->cv.notify_all();
            for (int k = 0; k < 16; k++) if (G->owed_all[k]) G->woken[k] = true;
            if (n < expect) pmc_violation("notify_all-count", "notify_all() returned %d but %d waiter(s) were waiting when the notifier took the lock", n, expect);
        } else {
            thread* t = G->cv.notify_one();
            if (op != 'u') { G->pending_one--; G->pending_ids.erase(std::remove(G->pending_ids.begin(), G->pending_ids.end(), me), G->pending_ids.end()); }
            { int who = -1; if (t) for (auto& q : G->prog.pts) if (q.th == t) who = q.idx; pmc_log("  [+%llu] T%d notify_one -> %d", (unsigned long long)(mv_now() - MV_T0), me, who); }
            if (t) for (auto& q : G->prog.pts) if (q.th == t) G->woken[q.idx] = true;
            if (!t && expect > 0 && op != 'u' && !G->overlap[me]) pmc_violation("notify_one-null", "notify_one() returned null although %d waiter(s) were waiting when the notifier took the lock", expect);
        }
        if (hold) { thread_yield(); mv_yield("holding after notify"); thread_yield(); }
        if (inside) UNLOCK();
        G->log += char('a' + me); G->log += op;
        p.result += op;
    }
}

static void final_oracle(const char* when, const char* dump) {
    int blocked = 0, ok0 = 0;
    for (int k = 0; k < 16; k++) {
        if (G->begun[k] && !G->returned[k]) {
            blocked++;
            if (G->owed_all[k]) pmc_violation("lost-notification", "%s: waiter %d began waiting before a notify_all notifier took the lock, yet it is blocked forever. %s", when, k, dump);
        }
        if (G->begun[k] && G->returned[k] && !G->timed[k] && !G->owed_all[k] && G->ret[k] == 0) ok0++;
    }
    if (G->owed_one > ok0) pmc_violation("lost-notification", "%s: %d notify_one() found a waiter waiting but only %d such waiter(s) returned; %d blocked, %d never woken. %s", when, G->owed_one, ok0, blocked, G->never_woken, dump);
    pmc_obs("%s %s blocked=%d", G->prog.results().c_str(), G->log.c_str(), blocked + G->never_woken);
}
static void on_deadlock(const char* dump) {
    for (auto& p : G->prog.pts) if (!p.done && !(G->begun[p.idx] && !G->returned[p.idx])) pmc_violation("deadlock", "thread %d stuck outside cv.wait: %s", p.idx, dump);
    final_oracle("quiescence", dump);
    pmc_done();
}

// config "<m|s>:<prog>[:tdev]"
void pmc_run(const char* config) {
    St st; G = &st;
    char prog[128]; char extra[16] = "";
    st.use_mutex = config[0] == 'm';
    if (sscanf(config + 2, "%127[^:]:%15s", prog, extra) < 1) pmc_broken("bad config");
    pmc_window(1);     // generated programs are explorer choices
    // (one op per thread: the oracle's bookkeeping is per single-shot thread; no 'h' with the spinlock: holding a spinlock across a yield on
    //  one vCPU live-locks by construction)
    if (st.prog.parse_or_generate(prog, st.use_mutex ? std::vector<std::string>{"W", "T", "N", "A", "h", "n", "a", "u", "i0", "i1"} : std::vector<std::string>{"W", "T", "N", "A", "n", "a", "u", "i0"})) st.log = st.prog.generated + " ";
    st.prog.early_join = strstr(extra, "early") != nullptr;
    pmc_window(0);
    mv_init(); mvp::use_fast_stacks(true);
    mv_on_deadlock = on_deadlock;
    mv_time_deviations(strstr(extra, "tdev") != nullptr);
    if (strstr(extra, "plain")) { mv_plain_region(&st.cv, sizeof st.cv); mv_plain_region(&st.m, sizeof st.m); }     // plain accesses to the cv / mutex objects are scheduling points too
    mv_tso(strstr(extra, "tso") != nullptr); mv_switch_points(0);     // built with -DPHOTON_VERIF for the TSC hook only
    st.prog.run(body);
    final_oracle("end", "");
    mv_fini(); G = nullptr;
}

static const PmcConfig CFG[] = {
    {"m:W|N",        3, {2,3}, {0,0}, {0,0}, {0,0}, "the atomic release-and-wait window, mutex"},
    {"s:W|N",        3, {2,3}, {0,0}, {0,0}, {0,0}, "same with a spinlock"},
    {"m:W|n",        3, {2,2}, {0,0}, {0,0}, {0,0}, "notify inside the lock"},
    {"m:W,W|A",      3, {1,2}, {0,0}, {0,0}, {0,0}, "notify_all wakes all"},
    {"s:W,W|A",      3, {1,2}, {0,0}, {0,0}, {0,0}, ""},
    {"m:W,W|N",      3, {1,2}, {0,0}, {0,0}, {0,0}, "notify_one wakes exactly one"},
    {"m:W|W|NN",     3, {1,2}, {0,0}, {0,0}, {0,0}, "three vCPUs"},
    {"m:P|N",        3, {1,2}, {0,0}, {0,0}, {0,0}, "predicate loop"},
    {"m:T|N:tdev",   3, {1,2}, {1,1}, {0,0}, {2,3}, "timed wait vs notification"},
    {"s:T|N:tdev",   3, {1,2}, {1,1}, {0,0}, {2,2}, ""},
    {"m:W,T|A:tdev", 2, {1,2}, {1,1}, {0,0}, {2,2}, ""},
    {"s:T|N:tdev,early", 3, {1,1}, {1,1}, {0,0}, {2,2}, "waiter thread exits and is disposed right after its timeout: exhibits the stale-waiter-pointer finding"},
    {"m:W,N",        3, {0,0}, {0,0}, {0,0}, {0,0}, "same vCPU"},
    {"m:pW,pW,pNpN", 3, {0,0}, {0,0}, {0,0}, {0,0}, "one vCPU, every arrival order"},
    {"s:pW,pW,pA",   3, {0,0}, {0,0}, {0,0}, {0,0}, ""},
    {"m:pT,pW,pN:tdev", 3, {0,0}, {1,2}, {0,0}, {0,0}, "one vCPU: timeout vs notify in every order"},
    {"m:pW,pT,ph:tdev", 3, {0,0}, {1,2}, {0,0}, {0,0}, "one vCPU: the woken waiter re-locks a held mutex while another waiter times out (errno is per vCPU)"},
    {"m:W,T|h:tdev",  3, {1,1}, {1,1}, {0,0}, {2,2}, "same across vCPUs"},
    {"m:pW,pW,ph",    3, {0,0}, {0,0}, {0,0}, {0,0}, ""},
    {"m:pW,pP,pnpa", 2, {0,0}, {0,0}, {0,0}, {0,0}, ""},
    {"m:W|u",        2, {1,2}, {0,0}, {0,0}, {0,0}, "notification without the lock"},
    {"s:W,W|a",      2, {1,2}, {0,0}, {0,0}, {0,0}, ""},
    {"m:T,W|N:tdev", 3, {1,2}, {1,1}, {0,0}, {2,3}, "the head waiter times out while the notifier is between reading the queue head and locking it: the next waiter must be woken"},
    {"m:W,W|N|N",    3, {1,2}, {0,0}, {0,0}, {0,0}, "two notifiers on two vCPUs notify outside the lock at the same time: both waiters must be woken"},
    {"s:W,W|N|N",    2, {1,2}, {0,0}, {0,0}, {0,0}, ""},
    {"m:pW,pN,ppi0", 3, {0,0}, {0,0}, {0,0}, {0,0}, "one vCPU: an interrupt lands on a waiter before / after it was notified (every arrival order)"},
    {"m:pW,pW,pA,ppi0i1", 3, {0,0}, {0,0}, {0,0}, {0,0}, ""},
    {"m:W|N:tso",    3, {1,2}, {0,0}, {1,1}, {2,3}, "x86-TSO store buffers"},
    {"s:W|N:tso",    3, {1,2}, {0,0}, {1,1}, {2,3}, ""},
    {"m:W|N:plain",  3, {1,2}, {0,0}, {0,0}, {0,0}, "plain accesses to the condition variable and mutex objects are scheduling points too"},
    {"m:W,W|N|N:plain", 2, {1,1}, {0,0}, {0,0}, {0,0}, ""},
    {"m:W,W|A:tso",  2, {1,1}, {0,0}, {1,1}, {2,2}, ""},
    // generated programs last: they take whatever budget the configs above leave
    {"m:gen3x1",     3, {0,0}, {0,0}, {0,0}, {0,0}, "generated: every 3-thread program with one op each from {W,T,N,A,h,n,a,u}, every arrival order"},
    {"s:gen3x1",     3, {0,0}, {0,0}, {0,0}, {0,0}, ""},
    {"m:gen4x1",     2, {0,0}, {0,0}, {0,0}, {0,0}, ""},
    {"s:gen4x1",     2, {0,0}, {0,0}, {0,0}, {0,0}, ""},
    {"m:gen3x1:tdev",2, {0,0}, {1,1}, {0,0}, {0,0}, ""},
};
const PmcConfig* pmc_configs(int* n) { *n = sizeof CFG / sizeof CFG[0]; return CFG; }
const char* pmc_property(void) { return "C03"; }
const char* pmc_target(void) { return "cv_xv"; }
int main(int argc, char** argv) { return pmc_main(argc, argv); }
