// C16 xfile: the file adaptors (aligned, fixed-size linear, variable-size linear, stripe) are transparent.
//
// Bounded-exhaustive enumeration. Every case = one fresh adaptor object over fresh in-memory underlay file(s) and a
// sequence of 1..3 positional operations (pread / pwrite / preadv / pwritev) that all START INSIDE the file.
// Oracle (property statement): the same sequence applied to a plain byte vector of the same size
//   * returned byte counts and returned data are equal (for the fixed-size composites a request running past the end is
//     clipped at the end; for the aligned adaptor the plain file grows),
//   * final logical content and size are equal (composites: the sub-files, read through the documented layout
//     -- concatenation / RAID-0 striping -- equal the reference, and no sub-file changed its size),
//   * every pread/pwrite/preadv/pwritev the aligned adaptor issues to its underlay has offset and total length that are
//     multiples of the alignment and, with align_memory, every buffer (every iovec base) aligned.
// Deliberately NOT compared (adaptors legitimately differ from a plain file, or the statement is silent):
//   * requests starting at or after EOF (adaptors return -1/EIO or an error where a plain file returns 0): never generated;
//   * errno; the ftruncate() the aligned adaptor uses to cut the overshoot of its last block (its length is by design
//     not aligned; a real O_DIRECT file accepts that) -- only I/O requests are checked for alignment;
//   * with align_memory=false a pass-through vectored request keeps the user's segmentation: only offset and TOTAL
//     length are checked;
//   * align_memory=true needs alignment >= sizeof(void*) (the adaptor's default allocator is posix_memalign, which
//     rejects 2 and 4: every bounce request would fail with -1); so align_memory=true is exercised with A in {8,16},
//     align_memory=false with A in {2,4,8,(16)}.
// Memory-safety oracle: every user buffer / iovec piece / iovec array is its own exact-size heap block (ASan red zones),
// read destinations are pre-filled with a sentinel that must survive beyond the returned count, write sources and the
// caller's iovec array must come back unmodified.
#include "seqx.h"
#include <photon/fs/filesystem.h>
#include <photon/fs/aligned-file.h>
#include <photon/fs/xfile.h>
#include <photon/common/alog.h>
#include <sys/stat.h>
#include <sys/uio.h>
#include <vector>
#include <string>
using namespace photon::fs;

#if !defined(C16_ALIGNED) && !defined(C16_COMPOSITE)
#error "build with -DC16_ALIGNED or -DC16_COMPOSITE"
#endif

static bool g_verbose = false;
static bool g_done = false;            // replay: the one requested case has been executed

enum { PREAD = 0, PWRITE = 1, PREADV = 2, PWRITEV = 3 };
static const char* KN[] = {"pread", "pwrite", "preadv", "pwritev"};
// buffer placement codes: 0 = every buffer aligned (16), 1 = every buffer at aligned+1, 2 = every buffer at aligned+A/2,
// 3 = first iovec piece aligned, the others at aligned+1
static const char* MISN[] = {"aligned", "+1", "+A/2", "first-aligned-rest+1"};
enum { SENT = 0xEE, PAD = 0xF5 };

static inline uint8_t pat(int x) { return (uint8_t)(1 + (x * 37 + 11) % 199); }             // initial content, never 0
static inline uint8_t wdat(int opi, int j) { return (uint8_t)(1 + (opi * 61 + j * 13 + 101) % 199); }

// ------------------------------------------------------------------------------------------------- underlay
struct MemFile : public IFile {
    std::vector<uint8_t> d;
    uint32_t align = 0; bool chk_mem = false;      // contract towards this file (0 = none)
    int id = 0;
    int nviol = 0; char viol[256];
    int ncalls = 0;
    void bad(const char* fmt, ...) __attribute__((format(printf, 2, 3))) {
        if (nviol++ == 0) { va_list ap; va_start(ap, fmt); vsnprintf(viol, sizeof viol, fmt, ap); va_end(ap); }
        else if (!g_verbose) return;
        if (g_verbose) { char b[256]; va_list ap; va_start(ap, fmt); vsnprintf(b, sizeof b, fmt, ap); va_end(ap); fprintf(stderr, "      !! underlay[%d]: %s\n", id, b); }
    }
    void chk(const char* call, off_t off, size_t total, const struct iovec* iov, int cnt) {
        ncalls++;
        if (g_verbose) {
            fprintf(stderr, "      underlay[%d].%s(off=%lld,len=%zu", id, call, (long long)off, total);
            for (int i = 0; i < cnt; i++) fprintf(stderr, "%s%zu@%%16=%d", i ? "+" : ",bufs=", iov[i].iov_len, (int)((uintptr_t)iov[i].iov_base & 15));
            fprintf(stderr, ") size=%zu\n", d.size());
        }
        if (off < 0) bad("%s with negative offset %lld", call, (long long)off);
        if (!align) return;
        if (off % align) bad("%s(off=%lld,len=%zu): offset not a multiple of %u", call, (long long)off, total, align);
        if (total % align) bad("%s(off=%lld,len=%zu): length not a multiple of %u", call, (long long)off, total, align);
        if (chk_mem) for (int i = 0; i < cnt; i++)
            if (iov[i].iov_len && ((uintptr_t)iov[i].iov_base % align)) bad("%s(off=%lld,len=%zu): buffer %d at address%%%u=%d", call, (long long)off, total, i, align, (int)((uintptr_t)iov[i].iov_base % align));
    }
    ssize_t rd(void* buf, size_t count, off_t off) {
        if (off < 0) { errno = EINVAL; return -1; }
        if ((size_t)off >= d.size()) return 0;
        size_t n = std::min(count, d.size() - (size_t)off);
        memcpy(buf, d.data() + off, n);
        return n;
    }
    ssize_t wr(const void* buf, size_t count, off_t off) {
        if (off < 0) { errno = EINVAL; return -1; }
        if (count == 0) return 0;
        if ((size_t)off + count > d.size()) d.resize((size_t)off + count, 0);
        memcpy(d.data() + off, buf, count);
        return count;
    }
    ssize_t pread(void* buf, size_t count, off_t off) override { iovec v{buf, count}; chk("pread", off, count, &v, 1); return rd(buf, count, off); }
    ssize_t pwrite(const void* buf, size_t count, off_t off) override { iovec v{(void*)buf, count}; chk("pwrite", off, count, &v, 1); return wr(buf, count, off); }
    ssize_t preadv(const struct iovec* iov, int cnt, off_t off) override {
        size_t total = 0; for (int i = 0; i < cnt; i++) total += iov[i].iov_len;
        chk("preadv", off, total, iov, cnt);
        ssize_t done = 0;
        for (int i = 0; i < cnt; i++) { ssize_t r = rd(iov[i].iov_base, iov[i].iov_len, off + done); if (r < 0) return -1; done += r; if ((size_t)r < iov[i].iov_len) break; }
        return done;
    }
    ssize_t pwritev(const struct iovec* iov, int cnt, off_t off) override {
        size_t total = 0; for (int i = 0; i < cnt; i++) total += iov[i].iov_len;
        chk("pwritev", off, total, iov, cnt);
        ssize_t done = 0;
        for (int i = 0; i < cnt; i++) { ssize_t r = wr(iov[i].iov_base, iov[i].iov_len, off + done); if (r < 0) return -1; done += r; }
        return done;
    }
    int fstat(struct stat* st) override { memset(st, 0, sizeof *st); st->st_mode = S_IFREG | 0644; st->st_size = d.size(); st->st_blksize = 4096; if (g_verbose) fprintf(stderr, "      underlay[%d].fstat -> size=%zu\n", id, d.size()); return 0; }
    int ftruncate(off_t len) override { if (g_verbose) fprintf(stderr, "      underlay[%d].ftruncate(%lld) size=%zu\n", id, (long long)len, d.size()); if (len < 0) { errno = EINVAL; return -1; } d.resize(len, 0); return 0; }
    int fsync() override { return 0; }
    int fdatasync() override { return 0; }
    int close() override { return 0; }
    int fchmod(mode_t) override { return 0; }
    int fchown(uid_t, gid_t) override { return 0; }
    IFileSystem* filesystem() override { return nullptr; }
    // positional I/O only: the stream interface must not be used by the adaptors for p* requests
    off_t lseek(off_t, int) override { bad("unexpected lseek"); errno = ENOSYS; return -1; }
    ssize_t read(void*, size_t) override { bad("unexpected read"); errno = ENOSYS; return -1; }
    ssize_t readv(const struct iovec*, int) override { bad("unexpected readv"); errno = ENOSYS; return -1; }
    ssize_t write(const void*, size_t) override { bad("unexpected write"); errno = ENOSYS; return -1; }
    ssize_t writev(const struct iovec*, int) override { bad("unexpected writev"); errno = ENOSYS; return -1; }
};

// ------------------------------------------------------------------------------------------------- subjects and ops
struct Subject {
    int type;          // 0 aligned, 1 fixed-size linear, 2 variable-size linear, 3 stripe
    int A;             // alignment / unit size / stripe size (linear: unused)
    bool mem;          // aligned: align_memory
    int n;             // composites: number of sub-files
    int sub[3];        // composites: sub-file sizes
    int size0;         // initial logical size
};
static const char* TN[] = {"aligned", "fixed_linear", "linear", "stripe"};
static bool growable(const Subject& s) { return s.type == 0; }

struct Op { uint8_t kind, mis, np; int16_t off, len, c1, c2; };
static inline bool is_write(const Op& o) { return o.kind & 1; }
static inline bool is_vec(const Op& o) { return o.kind >= 2; }

static std::string subj_str(const Subject& s) {
    char b[160];
    if (s.type == 0) snprintf(b, sizeof b, "aligned(A=%d,align_memory=%d,size=%d)", s.A, (int)s.mem, s.size0);
    else if (s.type == 1) snprintf(b, sizeof b, "fixed_linear(unit=%d,n=%d)", s.A, s.n);
    else if (s.type == 2) { int k = snprintf(b, sizeof b, "linear(sizes="); for (int i = 0; i < s.n; i++) k += snprintf(b + k, sizeof b - k, "%s%d", i ? "+" : "", s.sub[i]); snprintf(b + k, sizeof b - k, ")"); }
    else snprintf(b, sizeof b, "stripe(stripe=%d,n=%d,subsize=%d)", s.A, s.n, s.sub[0]);
    return b;
}
static std::string op_str(const Op& o) {
    char b[160]; int k = snprintf(b, sizeof b, "%s(off=%d,len=%d", KN[o.kind], o.off, o.len);
    if (is_vec(o)) {
        if (o.np == 1) k += snprintf(b + k, sizeof b - k, ",iov=%d", o.len);
        else if (o.np == 2) k += snprintf(b + k, sizeof b - k, ",iov=%d+%d", o.c1, o.len - o.c1);
        else k += snprintf(b + k, sizeof b - k, ",iov=%d+%d+%d", o.c1, o.c2 - o.c1, o.len - o.c2);
    }
    snprintf(b + k, sizeof b - k, ",buf=%s)", MISN[o.mis]);
    return b;
}

// logical byte -> (sub-file, position); the documented layouts
static void locate(const Subject& s, int x, int& f, int& pos) {
    if (s.type == 1) { f = x / s.A; pos = x % s.A; }
    else if (s.type == 2) { f = 0; while (x >= s.sub[f]) { x -= s.sub[f]; f++; } pos = x; }
    else { int st = x / s.A; f = st % s.n; pos = (st / s.n) * s.A + x % s.A; }
}

// ------------------------------------------------------------------------------------------------- exact-size user buffers
struct Piece { char* raw; char* base; size_t len, pad; };
static Piece mk_piece(size_t len, int misbytes, int fill) {
    Piece p; p.len = len;
    p.pad = (misbytes == 0 && len == 0) ? 16 : misbytes;          // a zero-length aligned piece points at the red zone after a 16-byte block
    void* r = nullptr;
    if (posix_memalign(&r, 16, p.pad + len) != 0 || !r) { fprintf(stderr, "harness: posix_memalign failed\n"); _exit(3); }
    p.raw = (char*)r; p.base = p.raw + p.pad;
    memset(p.raw, PAD, p.pad); memset(p.base, fill, len);
    return p;
}

#define FAILF(sig, ...) do { char sg_[120]; snprintf(sg_, sizeof sg_, "%s:%s", TN[s.type], sig); c.fail(sg_, __VA_ARGS__); } while (0)

// run one op on the adaptor and on the reference; false = mismatch (case stops)
static bool run_op(seqx::Ctx& c, const Subject& s, IFile* f, std::vector<uint8_t>& ref, const Op& o, int opi) {
    int np = is_vec(o) ? o.np : 1;
    size_t lens[3] = {(size_t)o.len, 0, 0};
    if (np == 2) { lens[0] = o.c1; lens[1] = o.len - o.c1; }
    if (np == 3) { lens[0] = o.c1; lens[1] = o.c2 - o.c1; lens[2] = o.len - o.c2; }
    int halfA = s.type == 0 ? s.A / 2 : 2;
    Piece pc[3]; size_t start[3]; size_t acc = 0;
    for (int i = 0; i < np; i++) {
        int mb = o.mis == 0 ? 0 : o.mis == 1 ? 1 : o.mis == 2 ? halfA : (i == 0 ? 0 : 1);
        pc[i] = mk_piece(lens[i], mb, SENT);
        start[i] = acc;
        if (is_write(o)) for (size_t j = 0; j < lens[i]; j++) pc[i].base[j] = (char)wdat(opi, (int)(acc + j));
        acc += lens[i];
    }
    struct iovec* iov = new iovec[np];          // exact-size: an adaptor indexing past iovcnt is caught
    for (int i = 0; i < np; i++) { iov[i].iov_base = pc[i].base; iov[i].iov_len = lens[i]; }
    size_t size = ref.size();
    size_t expect = growable(s) && is_write(o) ? (size_t)o.len : std::min((size_t)o.len, size - (size_t)o.off);
    if (g_verbose) fprintf(stderr, "   op%d %s  (logical size %zu, reference count %zu)\n", opi, op_str(o).c_str(), size, expect);
    errno = 0;
    ssize_t r;
    switch (o.kind) {
        case PREAD: r = f->pread(pc[0].base, o.len, o.off); break;
        case PWRITE: r = f->pwrite(pc[0].base, o.len, o.off); break;
        case PREADV: r = f->preadv(iov, np, o.off); break;
        default: r = f->pwritev(iov, np, o.off); break;
    }
    if (g_verbose) fprintf(stderr, "   op%d returned %zd\n", opi, r);
    bool ok = true;
    if (r != (ssize_t)expect) { FAILF(is_write(o) ? "write-count" : "read-count", "op%d %s returned %zd, plain file of size %zu gives %zu (errno %d)", opi, op_str(o).c_str(), r, size, expect, errno); ok = false; }
    // the caller's iovec array must be untouched (const struct iovec*)
    for (int i = 0; i < np && ok; i++) if (iov[i].iov_base != pc[i].base || iov[i].iov_len != lens[i]) { FAILF("caller-iovec-modified", "op%d %s: iov[%d] changed", opi, op_str(o).c_str(), i); ok = false; }
    for (int i = 0; i < np && ok; i++) for (size_t j = 0; j < pc[i].pad; j++) if ((uint8_t)pc[i].raw[j] != PAD) { FAILF("buffer-underflow", "op%d %s: byte %zu before piece %d overwritten", opi, op_str(o).c_str(), pc[i].pad - j, i); ok = false; break; }
    if (ok && !is_write(o)) {
        for (int i = 0; i < np && ok; i++) for (size_t j = 0; j < lens[i]; j++) {
            size_t k = start[i] + j; uint8_t got = (uint8_t)pc[i].base[j];
            if (k < expect) { if (got != ref[o.off + k]) { FAILF("read-data", "op%d %s: byte %zu (file offset %zu) is 0x%02x, plain file has 0x%02x", opi, op_str(o).c_str(), k, o.off + k, got, ref[o.off + k]); ok = false; break; } }
            else if (got != SENT) { FAILF("read-scribbles-beyond-count", "op%d %s returned %zd but buffer byte %zu was overwritten (0x%02x)", opi, op_str(o).c_str(), r, k, got); ok = false; break; }
        }
    }
    if (ok && is_write(o)) {
        for (int i = 0; i < np && ok; i++) for (size_t j = 0; j < lens[i]; j++) if ((uint8_t)pc[i].base[j] != wdat(opi, (int)(start[i] + j))) { FAILF("write-source-modified", "op%d %s: source byte %zu changed", opi, op_str(o).c_str(), start[i] + j); ok = false; break; }
        if (expect) {
            if ((size_t)o.off + expect > ref.size()) ref.resize((size_t)o.off + expect, 0);
            for (size_t k = 0; k < expect; k++) ref[o.off + k] = wdat(opi, (int)k);
        }
    }
    delete[] iov;
    for (int i = 0; i < np; i++) free(pc[i].raw);
    return ok;
}

// relation class of one op
static void blocks_rel(const Subject& s, int size, const Op& o, int& off_al, int& end_al, int& nblk) {
    int end = std::min(o.off + o.len, size);
    if (s.type == 2) {
        int kp = 0, cnt = 0; off_al = end_al = 0;
        for (int i = 0; i <= s.n; i++) { if (kp == o.off) off_al = 1; if (kp == end) end_al = 1; if (i < s.n) { int lo = std::max(kp, (int)o.off), hi = std::min(kp + s.sub[i], end); if (hi > lo) cnt++; kp += s.sub[i]; } }
        nblk = cnt;
    } else {
        off_al = o.off % s.A == 0; end_al = (o.off + o.len) % s.A == 0;
        int e = s.type == 0 ? o.off + o.len : end;
        nblk = e > o.off ? (e - 1) / s.A - o.off / s.A + 1 : 0;
    }
}
static uint64_t op_class(const Subject& s, int size, const Op& o, bool fine) {
    int oa, ea, nb; blocks_rel(s, size, o, oa, ea, nb);
    int end = o.off + o.len; int eof = end < size ? 0 : end == size ? 1 : 2;
    uint64_t h = seqx::mix(o.kind, eof);
    if (!fine) return seqx::mix(h, (oa && ea) * 2 + (o.len == 0));
    h = seqx::mix(h, oa * 2 + ea); h = seqx::mix(h, std::min(nb, 3));
    h = seqx::mix(h, o.len == 0 ? 0 : o.len == 1 ? 1 : 2);
    int empties = 0; if (is_vec(o)) { if (o.np >= 2) empties += (o.c1 == 0) + ((o.np == 2 ? o.len : o.c2) == o.c1); if (o.np == 3) empties += (o.len == o.c2); }
    h = seqx::mix(h, (is_vec(o) ? o.np : 0) * 4 + std::min(empties, 3));
    return seqx::mix(h, o.mis);
}

static void run_case(seqx::Ctx& c, const Subject& s, const Op* ops, int n) {
    g_verbose = c.verbose;
    log_output = g_verbose ? log_output_stdout : log_output_null;
    std::vector<uint8_t> ref(s.size0);
    for (int x = 0; x < s.size0; x++) ref[x] = pat(x);
    MemFile* u[3] = {nullptr, nullptr, nullptr}; int nu = s.type == 0 ? 1 : s.n;
    IFile* arr[3]; IFile* f = nullptr;
    for (int i = 0; i < nu; i++) { u[i] = new MemFile; u[i]->id = i; arr[i] = u[i]; }
    if (s.type == 0) {
        u[0]->d = ref; u[0]->align = s.A; u[0]->chk_mem = s.mem;
        f = new_aligned_file_adaptor(u[0], s.A, s.mem, false);
    } else {
        for (int i = 0; i < nu; i++) u[i]->d.assign(s.sub[i], 0);
        for (int x = 0; x < s.size0; x++) { int fi, pos; locate(s, x, fi, pos); u[fi]->d[pos] = ref[x]; }
        f = s.type == 1 ? new_fixed_size_linear_file(s.A, arr, nu, false) : s.type == 2 ? new_linear_file(arr, nu, false) : new_stripe_file(s.A, arr, nu, false);
    }
    uint64_t h = seqx::mix(seqx::mix(s.type, s.mem), n);
    if (s.type == 0) h = seqx::mix(h, (s.size0 % s.A == 0) + 2 * (s.size0 == 0));
    if (s.type == 1) h = seqx::mix(h, (s.A & (s.A - 1)) == 0);
    if (!f) { FAILF("constructor-returned-null", "%s", subj_str(s).c_str()); for (int i = 0; i < nu; i++) delete u[i]; return; }
    bool ok = true; int size = s.size0;
    for (int i = 0; i < n && ok; i++) {
        h = seqx::mix(h, op_class(s, size, ops[i], n == 1));
        ok = run_op(c, s, f, ref, ops[i], i);
        size = (int)ref.size();
    }
    if (ok) {
        struct stat st; memset(&st, 0, sizeof st);
        int r = f->fstat(&st);
        if (r != 0 || (size_t)st.st_size != ref.size()) FAILF("final-size-fstat", "fstat()=%d st_size=%lld, plain file has size %zu", r, (long long)st.st_size, ref.size());
        if (s.type == 0) {
            if (u[0]->d.size() != ref.size()) FAILF("final-size", "underlay has %zu bytes, plain file has %zu", u[0]->d.size(), ref.size());
            else for (size_t x = 0; x < ref.size(); x++) if (u[0]->d[x] != ref[x]) { FAILF("final-content", "byte %zu is 0x%02x, plain file has 0x%02x", x, u[0]->d[x], ref[x]); break; }
        } else {
            bool sz = true;
            for (int i = 0; i < nu; i++) if ((int)u[i]->d.size() != s.sub[i]) { FAILF("subfile-size-changed", "sub-file %d has %zu bytes, was %d", i, u[i]->d.size(), s.sub[i]); sz = false; break; }
            if (sz) for (int x = 0; x < s.size0; x++) { int fi, pos; locate(s, x, fi, pos); if (u[fi]->d[pos] != ref[x]) { FAILF("final-content", "logical byte %d (sub-file %d pos %d) is 0x%02x, plain file has 0x%02x", x, fi, pos, u[fi]->d[pos], ref[x]); break; } }
        }
    }
    for (int i = 0; i < nu; i++) if (u[i]->nviol) { FAILF(s.type == 0 ? "underlay-request-misaligned" : "underlay-bad-request", "%s (%d bad requests)", u[i]->viol, u[i]->nviol); break; }
    c.cls(h);
    delete f;
    for (int i = 0; i < nu; i++) delete u[i];
}

// ------------------------------------------------------------------------------------------------- alphabets
struct Alpha {
    int B;                 // block size the boundary selections refer to
    int lmax;              // lengths 0..lmax
    bool len_boundary;     // only lengths in {0,1,2,B-1,B,B+1,2B-1,2B,2B+1,2B+2}
    bool off_boundary;     // only offsets with off%B in {0,1,B-1}
    int smis, vmis;        // bit masks of buffer placement codes for scalar / vectored ops
    int cuts;              // 0 = every cut into 1..3 pieces (empty pieces included); 1 = 2 pieces cut at len/2;
                           // 2 = 2 pieces at len/2 and 3 pieces at len/3, 2len/3;
                           // 3 = 1 piece, every 2-piece cut, 3-piece cuts with both cuts in {0,1,B-1,B,B+1,2B-1,2B,2B+1,len-1,len}
    int kinds;             // bit mask of op kinds
    bool eof1;             // lengths that run past EOF are represented by the one ending at EOF+1 (fixed-size composites: all clipped alike)
};
static bool len_ok(const Alpha& a, int l) {
    if (!a.len_boundary) return true;
    int B = a.B; return l <= 2 || l == B - 1 || l == B || l == B + 1 || l == 2 * B - 1 || l >= 2 * B;
}
static bool off_ok(const Alpha& a, int off) {
    if (!a.off_boundary || a.B < 4) return true;
    int m = off % a.B; return m <= 1 || m == a.B - 1;
}
static bool cut_boundary(int B, int len, int cpos) {
    return cpos <= 1 || cpos >= len - 1 || cpos == B - 1 || cpos == B || cpos == B + 1 || cpos == 2 * B - 1 || cpos == 2 * B || cpos == 2 * B + 1;
}
template<class F> static void gen_ops_at(const Alpha& a, int size, int off, F&& f) {
    for (int len = 0; len <= a.lmax; len++) {
        if (a.eof1 && off + len > size + 1) break;
        if (!len_ok(a, len)) continue;
        for (int kind = 0; kind < 4; kind++) {
            if (!(a.kinds >> kind & 1)) continue;
            Op o; o.kind = kind; o.off = off; o.len = len; o.np = 1; o.c1 = o.c2 = 0;
            if (kind < 2) { for (int m = 0; m < 3; m++) if (a.smis >> m & 1) { o.mis = m; f(o); } continue; }
            for (int m = 0; m < 4; m++) if (a.vmis >> m & 1) {
                o.mis = m;
                if (a.cuts == 0 || a.cuts == 3) {
                    if (m != 3) { o.np = 1; o.c1 = o.c2 = 0; f(o); }
                    o.np = 2; o.c2 = 0; for (int c1 = 0; c1 <= len; c1++) { o.c1 = c1; f(o); }
                    o.np = 3;
                    for (int c1 = 0; c1 <= len; c1++) for (int c2 = c1; c2 <= len; c2++) {
                        if (a.cuts == 3 && !(cut_boundary(a.B, len, c1) && cut_boundary(a.B, len, c2))) continue;
                        o.c1 = c1; o.c2 = c2; f(o);
                    }
                } else {
                    o.np = 2; o.c1 = len / 2; o.c2 = 0; f(o);
                    if (a.cuts == 2) { o.np = 3; o.c1 = len / 3; o.c2 = 2 * len / 3; f(o); }
                }
            }
        }
    }
}
struct OpCache {          // ops available at a given logical size (all offsets inside the file)
    Alpha a; std::vector<std::vector<Op>> by_size; std::vector<char> have;
    explicit OpCache(const Alpha& a) : a(a) {}
    const std::vector<Op>& get(int size) {
        if ((int)by_size.size() <= size) { by_size.resize(size + 1); have.resize(size + 1, 0); }
        if (!have[size]) { have[size] = 1; auto& v = by_size[size]; for (int off = 0; off < size; off++) if (off_ok(a, off)) gen_ops_at(a, size, off, [&](const Op& o) { v.push_back(o); }); }
        return by_size[size];
    }
};

static inline bool mine(seqx::Ctx& c) {      // cheap preview of what begin() will decide, so descriptors are only built for own cases
    if (c.stop) return false;
    if (c.has_only) return c.counter == c.only_index;
    return (int)(c.counter % c.nshards) == c.shard && c.counter >= c.skip_upto;
}
static void leaf(seqx::Ctx& c, const Subject& s, const Op* ops, int n) {
    static bool count_only = getenv("C16_COUNT") && atoi(getenv("C16_COUNT")) == 2;     // sizing aid: walk without executing
    if (count_only) { c.counter++; return; }
    if (!mine(c)) { c.begin("-"); return; }
    std::string d = subj_str(s);
    for (int i = 0; i < n; i++) { d += i ? " ; " : " | "; d += op_str(ops[i]); }
    if (!c.begin("%s", d.c_str())) return;
    run_case(c, s, ops, n);
    if (c.has_only) g_done = true;
}
static void seq_rec(seqx::Ctx& c, const Subject& s, OpCache& oc, int depth, int n, int size, Op* ops) {
    const std::vector<Op>& v = oc.get(size);
    for (const Op& o : v) {
        if (c.stop || g_done) return;
        ops[depth] = o;
        if (depth + 1 == n) { leaf(c, s, ops, n); continue; }
        int ns = size;
        if (growable(s) && is_write(o) && o.len > 0) ns = std::max(size, o.off + o.len);
        seq_rec(c, s, oc, depth + 1, n, ns, ops);
    }
}
// all sequences of exactly n ops
static void enum_seq(seqx::Ctx& c, const Subject& s, OpCache& oc, int n) { Op ops[3]; seq_rec(c, s, oc, 0, n, s.size0, ops); }
// all single ops, generated on the fly (the every-cut alphabet is too large to cache)
static void enum_single(seqx::Ctx& c, const Subject& s, const Alpha& a) {
    for (int off = 0; off < s.size0; off++) { if (c.stop || g_done) return; if (off_ok(a, off)) gen_ops_at(a, s.size0, off, [&](const Op& o) { leaf(c, s, &o, 1); }); }
}

static Subject aligned_subject(int A, bool mem, int size) { Subject s; memset(&s, 0, sizeof s); s.type = 0; s.A = A; s.mem = mem; s.size0 = size; return s; }
static bool size_boundary(int A, int S) { int m = S % A; return A < 4 || m <= 1 || m == A - 1; }

static void section(seqx::Ctx& c, const char* name) {      // C16_COUNT=1: shard 0 logs the case counter after each section
    static bool on = getenv("C16_COUNT") != nullptr; static uint64_t last = 0; static double t = seqx::now_s();
    if (on && c.shard == 0) { fprintf(stderr, "section %-40s cases=%llu (total %llu) %.1fs\n", name, (unsigned long long)(c.counter - last), (unsigned long long)c.counter, seqx::now_s() - t); last = c.counter; t = seqx::now_s(); }
}
static void seqx_enumerate(seqx::Ctx& c, bool thorough) {
#ifdef C16_ALIGNED
    // 1. single operations: every size 0..3A+1, offset inside, length 0..2A+2, buffer placement, and every cut into 1..3 pieces
    //    (A=16: 3-piece cuts only at boundary positions)
    {
        struct Cfg { int A; bool mem; int cuts; };
        std::vector<Cfg> cfgs = {{2, false, 0}, {4, false, 0}, {8, false, 0}, {8, true, 0}};
        if (thorough) { cfgs.push_back({16, false, 3}); cfgs.push_back({16, true, 3}); }
        for (auto& g : cfgs) {
            Alpha a{g.A, 2 * g.A + 2, false, false, g.mem ? 7 : 3, g.mem ? 15 : 3, g.cuts, 15, false};
            for (int S = 0; S <= 3 * g.A + 1; S++) enum_single(c, aligned_subject(g.A, g.mem, S), a);
            char nm[64]; snprintf(nm, sizeof nm, "single A=%d mem=%d", g.A, (int)g.mem); section(c, nm);
        }
    }
    // 2. sequences of two operations: every size, offset, length for A=2,4; A=8 quick: boundary sizes and lengths (align_memory: vectored
    //    buffers aligned only); A=8 thorough: complete for align_memory=0, boundary sizes for align_memory=1;
    //    buffers at +1 (align_memory: aligned and +1); vectored ops as 2 pieces cut at len/2
    {
        struct SCfg { int A; bool mem; bool lenb; bool sizeb; int vmis; };
        std::vector<SCfg> cfgs;
        if (!thorough) cfgs = {{2, false, false, false, 2}, {4, false, false, false, 2}, {8, false, true, true, 2}, {8, true, true, true, 1}};
        else cfgs = {{2, false, false, false, 2}, {4, false, false, false, 2}, {8, false, false, false, 2}, {8, true, false, true, 3}};
        for (auto& g : cfgs) {
            Alpha a{g.A, 2 * g.A + 2, g.lenb, false, g.mem ? 3 : 2, g.vmis, 1, 15, false};
            OpCache oc(a);
            for (int S = 0; S <= 3 * g.A + 1; S++) { if (g.sizeb && !size_boundary(g.A, S)) continue; enum_seq(c, aligned_subject(g.A, g.mem, S), oc, 2); }
            char nm[64]; snprintf(nm, sizeof nm, "seq2 A=%d mem=%d", g.A, (int)g.mem); section(c, nm);
        }
    }
    // 3. sequences of three operations (thorough): A=2 complete; A=4 sizes 0..2A+1, lengths 0..A+2;
    //    A=8 with align_memory: boundary sizes <= 2A+1, boundary offsets, boundary lengths <= A+2, vectored buffers aligned only
    if (thorough) {
        struct SCfg { int A; bool mem; int lmax; bool lenb; bool offb; bool sizeb; int smax; int vmis; };
        std::vector<SCfg> cfgs = {{2, false, 6, false, false, false, 7, 2}, {4, false, 6, false, false, false, 9, 2}, {8, true, 10, true, true, true, 17, 1}};
        for (auto& g : cfgs) {
            Alpha a{g.A, g.lmax, g.lenb, g.offb, g.mem ? 3 : 2, g.vmis, 1, 15, false};
            OpCache oc(a);
            for (int S = 0; S <= g.smax; S++) { if (g.sizeb && !size_boundary(g.A, S)) continue; enum_seq(c, aligned_subject(g.A, g.mem, S), oc, 3); }
            char nm[64]; snprintf(nm, sizeof nm, "seq3 A=%d mem=%d", g.A, (int)g.mem); section(c, nm);
        }
    }
#else
    std::vector<Subject> subs;
    for (int unit : {3, 4}) for (int n : {2, 3}) { Subject s; memset(&s, 0, sizeof s); s.type = 1; s.A = unit; s.n = n; for (int i = 0; i < n; i++) s.sub[i] = unit; s.size0 = unit * n; subs.push_back(s); }
    for (int n : {2, 3}) { int combos = n == 2 ? 16 : 64; for (int code = 0; code < combos; code++) { Subject s; memset(&s, 0, sizeof s); s.type = 2; s.A = 3; s.n = n; int cc = code, tot = 0; for (int i = 0; i < n; i++) { s.sub[i] = cc % 4; cc /= 4; tot += s.sub[i]; } s.size0 = tot; if (tot) subs.push_back(s); } }
    for (int ss : {2, 4}) for (int n : {2, 3}) for (int k = 1; k <= (thorough ? 3 : 2); k++) { Subject s; memset(&s, 0, sizeof s); s.type = 3; s.A = ss; s.n = n; for (int i = 0; i < n; i++) s.sub[i] = ss * k; s.size0 = ss * k * n; subs.push_back(s); }
    // 1. single operations: every offset, length 0..2B+2, buffer placement, every cut into 1..3 pieces
    for (auto& s : subs) { Alpha a{s.A, 2 * s.A + 2, false, false, 3, 3, 0, 15, false}; enum_single(c, s, a); section(c, ("single " + subj_str(s)).c_str()); }
    // 2. sequences of two: every offset and length, buffers at +1, vectored ops as 2 pieces at len/2 (thorough: also 3 pieces)
    for (auto& s : subs) { Alpha a{s.A, 2 * s.A + 2, false, false, 2, 2, thorough ? 2 : 1, 15, false}; OpCache oc(a); enum_seq(c, s, oc, 2); section(c, ("seq2 " + subj_str(s)).c_str()); }
    // 3. sequences of three: pread/pwrite only, every offset, every length up to one byte past the end
    //    (quick: composites of size <= 6; thorough: size <= 16)
    for (auto& s : subs) {
        if (s.size0 > (thorough ? 16 : 6)) continue;
        Alpha a{s.A, 2 * s.A + 2, false, false, 2, 2, 1, 3, true}; OpCache oc(a); enum_seq(c, s, oc, 3); section(c, ("seq3 " + subj_str(s)).c_str());
    }
#endif
}

#ifdef C16_ALIGNED
SEQX_MAIN("C16", "aligned", "every case = fresh new_aligned_file_adaptor(A, align_memory) over an in-memory recording underlay + a sequence of 1..3 ops (pread/pwrite/preadv/pwritev) that start inside the file. Single ops, complete: (A,mem) in (2,0),(4,0),(8,0),(8,1) [thorough: +(16,0),(16,1)], size 0..3A+1, every offset, length 0..2A+2, buffers aligned/+1/+A/2/mixed, every cut into 1..3 iovec pieces incl. empty pieces (A=16: 3-piece cuts at boundary positions). Sequences of 2: every size/offset/length for A=2,4 (quick A=8: boundary sizes and lengths; thorough A=8: complete for mem=0, boundary sizes for mem=1), 2-piece iovecs cut at len/2. Sequences of 3 (thorough): A=2 complete; A=4 sizes<=9, lengths<=6; A=8 mem=1 boundary sizes<=17/offsets/lengths<=10. Reference = plain byte vector. distinct = (align_memory, size aligned/empty, #ops, per op: kind, end vs EOF, offset/end aligned, blocks spanned<=3, length class, pieces+empty pieces, buffer placement) [sequences: per op kind, end vs EOF, fully aligned, empty]")
#else
SEQX_MAIN("C16", "composite", "every case = fresh new_fixed_size_linear_file(unit 3|4, n 2|3) / new_linear_file(every sub-file size vector over {0,1,2,3}, n 2|3, total>0) / new_stripe_file(stripe 2|4, n 2|3, 1..2 [thorough 3] stripes per sub-file) over in-memory sub-files + a sequence of 1..3 ops that start inside the file. Single ops, complete: every offset, length 0..2B+2 (clipped at the end), buffers aligned/+1, every cut into 1..3 iovec pieces incl. empty pieces. Sequences of 2: every offset/length, 4 kinds, 2-piece [thorough +3-piece] iovecs. Sequences of 3: pread/pwrite, every offset, every length up to EOF+1 (quick: size<=6; thorough: size<=16). Reference = plain byte vector; layout = concatenation / RAID-0. distinct = (adaptor, unit power of 2, #ops, per op: kind, end vs EOF, offset/end on sub-file|stripe boundary, sub-files spanned<=3, length class, pieces+empty pieces, buffer placement) [sequences: per op kind, end vs EOF, both on boundary, empty]")
#endif
