// C17 cache_sv: the real full-file cache (CachedFs/CachedFile + ICacheStore::preadv2/do_refill_range + FileCacheStore +
// FileCachePool, optionally QuotaFilePool) on ONE vCPU over two mock file systems written here:
//   * SOURCE: read-only files, content = fbyte(file, offset) (never 0, so a hole read back as data is visible); a source
//     pread may (ENV) yield in the middle, return short, or fail with EIO; every request is logged and checked against the size.
//   * MEDIA: in-memory sparse files with 4K blocks (pread/pwrite(v)/ftruncate/fallocate(punch)/fstat/fiemap or
//     SEEK_DATA/SEEK_HOLE, open/stat/unlink/truncate/statvfs/opendir); st_blocks and statvfs are scaled (one 4K block counts
//     as 315 MB) so that the pool's GB-sized water marks are reached with 2-4 blocks; media I/O may (ENV) yield.
// Actors: readers (own CachedFile handle each, one pread/preadv from a page-boundary alphabet, exact-size heap buffers),
// an evictor (pool->evict(file) / fill the pool through another file / let 300 virtual seconds pass so that the pool timer
// and the store TTL fire / prefetch), on a cold cache, a warm cache, or a new pool built on the old pool's media (sync or
// async scan); sequential scenarios add - with no read in flight - range punching and reuse between two reads.
// Every execution ends with two whole-file verification reads under the default environment.
// Oracle: every cached read returns exactly min(len, size-off) bytes equal to fbyte(); -1 only if a source read issued by
// that very read was made to fail/short; never wrong bytes, never a wrong positive count; no source request beyond the
// source size; nobody blocked forever; ASan clean.
#include "sv_rt.h"
#include <photon/fs/cache/cache.h>
#include <photon/fs/cache/pool_store.h>
#include <photon/fs/filesystem.h>
#include <photon/fs/fiemap.h>
#include <photon/thread/thread.h>
#include <photon/thread/thread11.h>
#include <photon/common/io-alloc.h>
#include <photon/common/alog.h>
#include "fs/cache/full_file_cache/cache_pool.h"
#include "fs/cache/full_file_cache/quota_pool.h"
#include <sys/stat.h>
#include <sys/statvfs.h>
#include <sys/uio.h>
#include <dirent.h>
#include <fcntl.h>
#include <unistd.h>
#include <string.h>
#include <stdio.h>
#include <map>
#include <set>
#include <memory>
#include <vector>
#include <string>
#include <algorithm>

using namespace photon;
using namespace photon::fs;

static const size_t PG = 4096;
static const uint64_t PAGE_COST = 315ull << 20;          // what one allocated 4K media block "weighs" in st_blocks / statvfs
static const uint64_t DISK_TOTAL = 8 * PAGE_COST;        // scaled size of the media file system: 8 blocks
static const uint64_t LONG_US = 100ull * 1000 * 1000;    // pool timer period and store TTL: never fire unless time is moved explicitly
enum { Y_SRC_DATA = 0, Y_SRC_META = 1, Y_MEDIA_DATA = 2, Y_MEDIA_NS = 3 };
enum { F_SHORT = 1, F_EIO = 2 };

static inline uint8_t fbyte(int fid, uint64_t off) {
    uint64_t h = (off + 1) * 0x9E3779B97F4A7C15ull + (uint64_t)(fid + 1) * 0xC2B2AE3D27D4EB4Full;
    h ^= h >> 29; h *= 0xBF58476D1CE4E5B9ull; h ^= h >> 32;
    return 1 + (uint8_t)(h % 255);
}

// Exact-size heap blocks that are recycled by the harness instead of going through free(): a released block is ASan-poisoned
// until it is handed out again (a late access = "use-after-poison", an overflow hits malloc's red zone as usual).
// Only a memory pool: keeps ASan's quarantine from churning through fresh pages (page faults are what limits throughput here).
#include <sanitizer/asan_interface.h>
#include <sys/mman.h>
#include <photon/thread/stack-allocator.h>
static std::map<size_t, std::vector<void*>> blk_free_list;
static std::map<void*, size_t> blk_size;
static void* blk_alloc(size_t n) {
    auto& fl = blk_free_list[n];
    void* p;
    if (!fl.empty()) { p = fl.back(); fl.pop_back(); ASAN_UNPOISON_MEMORY_REGION(p, n); }
    else { p = malloc(n); blk_size[p] = n; }
    return p;
}
static void blk_release(void* p) {
    if (!p) return;
    auto it = blk_size.find(p);
    if (it == blk_size.end()) pmc_broken("blk_release of a foreign pointer");
    ASAN_POISON_MEMORY_REGION(p, it->second);
    blk_free_list[it->second].push_back(p);
}
// photon stacks: the cache creates its timers with hard-wired 8 MB stacks; poisoning 8 MB (1 MB of shadow) four times per
// execution costs more than the scenario itself. Same scheme as sv_rt's allocator (pooled raw mmap, a released stack stays
// poisoned until reuse) but only the top 256 KB - where the thread struct and every frame of these threads live - are (un)poisoned.
static const size_t STACK_GUARDED = 256 * 1024;
static std::vector<std::pair<void*, size_t>> stack_pool;
static void* stack_alloc(void*, size_t size) {
    size_t g = std::min(size, STACK_GUARDED);
    for (size_t i = 0; i < stack_pool.size(); i++)
        if (stack_pool[i].second == size) { void* p = stack_pool[i].first; stack_pool[i] = stack_pool.back(); stack_pool.pop_back(); ASAN_UNPOISON_MEMORY_REGION((char*)p + size - g, g); return p; }
    void* p = mmap(nullptr, size, PROT_READ | PROT_WRITE, MAP_PRIVATE | MAP_ANONYMOUS | MAP_NORESERVE, -1, 0);
    return p == MAP_FAILED ? nullptr : p;
}
static void stack_dealloc(void*, void* p, size_t size) { size_t g = std::min(size, STACK_GUARDED); ASAN_POISON_MEMORY_REGION((char*)p + size - g, g); stack_pool.push_back({p, size}); }

static int io_alloc(void*, IOAlloc::RangeSize sz, void** ptr) { *ptr = blk_alloc(sz.max); return sz.max; }
static int io_dealloc(void*, void* ptr) { blk_release(ptr); return 0; }

struct Inode {
    off_t size = 0;
    std::map<uint64_t, uint8_t*> pg;                      // allocated 4K blocks, each its own exact-size heap block
    ~Inode() { for (auto& p : pg) blk_release(p.second); }
    uint8_t* page(uint64_t i, bool create) {
        auto it = pg.find(i);
        if (it != pg.end()) return it->second;
        if (!create) return nullptr;
        uint8_t* p = (uint8_t*)blk_alloc(PG); memset(p, 0, PG); pg[i] = p; return p;
    }
    void truncate(off_t len) {
        if (len < size) {
            for (auto it = pg.begin(); it != pg.end();) {
                if ((off_t)(it->first * PG) >= len) { blk_release(it->second); it = pg.erase(it); } else ++it;
            }
            if (len % PG) { uint8_t* p = page(len / PG, false); if (p) memset(p + len % PG, 0, PG - len % PG); }
        }
        size = len;
    }
};

struct ReadCtx { int fault = 0; int nsrc = 0; };
struct RSpec { off_t off; size_t len; size_t split; };
struct Actor { char role; int fid; RSpec spec; int action; int state = 0; ssize_t ret = -2; };

struct World {
    // configuration
    std::string family, pool; bool fie = true; int ru = 4096; std::vector<off_t> sizes; int alevel = 1; bool yon[4] = {false, false, false, false}; bool faults = false; bool quiet = false;
    // source
    off_t fsize[2] = {0, (off_t)PG};                      // file 0 = "/a" (or "/q/a"), file 1 = "/b"
    std::string fname[2];
    std::string srclog; int nsrc = 0; int nfault = 0;
    std::map<photon::thread*, ReadCtx*> ctx;
    // media
    std::map<std::string, std::shared_ptr<Inode>> files; std::set<std::string> dirs;
    // the cache under test
    ICachedFileSystem* cfs = nullptr; IFileSystem* src = nullptr; IOAlloc alloc{{nullptr, &io_alloc}, {nullptr, &io_dealloc}};
    std::vector<Actor> actors; std::string log; int nyield = 0;
};
static World* W;

static bool env_yield(int cls, const char* label) {
    if (W->quiet || !W->yon[cls]) return false;
    if (pmc_choose(2, PMC_ENV, 1, label)) { W->nyield++; return true; }
    return false;
}
static int fid_of(const char* path) {
    for (int i = 0; i < 2; i++) if (W->fname[i] == path) return i;
    return -1;
}

// ------------------------------------------------------------------ boring bases: everything the cache never calls is ENOSYS
#define NOSYS(ret) { errno = ENOSYS; return ret; }
class FileBase : public IFile {
public:
    int close() override { return 0; }
    ssize_t read(void*, size_t) override NOSYS(-1)
    ssize_t readv(const struct iovec*, int) override NOSYS(-1)
    ssize_t write(const void*, size_t) override NOSYS(-1)
    ssize_t writev(const struct iovec*, int) override NOSYS(-1)
    ssize_t pread(void* buf, size_t count, off_t offset) override { struct iovec v{buf, count}; return preadv(&v, 1, offset); }
    ssize_t pwrite(const void* buf, size_t count, off_t offset) override { struct iovec v{(void*)buf, count}; return pwritev(&v, 1, offset); }
    ssize_t pwritev(const struct iovec*, int, off_t) override NOSYS(-1)
    off_t lseek(off_t, int) override NOSYS(-1)
    int fsync() override { return 0; }
    int fdatasync() override { return 0; }
    int fchmod(mode_t) override NOSYS(-1)
    int fchown(uid_t, gid_t) override NOSYS(-1)
    int ftruncate(off_t) override NOSYS(-1)
};
class FsBase : public IFileSystem {
public:
    IFile* open(const char* p, int flags) override { return open(p, flags, 0644); }
    IFile* open(const char*, int, mode_t) override NOSYS(nullptr)
    IFile* creat(const char*, mode_t) override NOSYS(nullptr)
    int mkdir(const char*, mode_t) override NOSYS(-1)
    int rmdir(const char*) override NOSYS(-1)
    int symlink(const char*, const char*) override NOSYS(-1)
    ssize_t readlink(const char*, char*, size_t) override NOSYS(-1)
    int link(const char*, const char*) override NOSYS(-1)
    int rename(const char*, const char*) override NOSYS(-1)
    int unlink(const char*) override NOSYS(-1)
    int chmod(const char*, mode_t) override NOSYS(-1)
    int chown(const char*, uid_t, gid_t) override NOSYS(-1)
    int lchown(const char*, uid_t, gid_t) override NOSYS(-1)
    int statfs(const char*, struct statfs*) override NOSYS(-1)
    int statvfs(const char*, struct statvfs*) override NOSYS(-1)
    int stat(const char*, struct stat*) override NOSYS(-1)
    int lstat(const char* p, struct stat* b) override { return stat(p, b); }
    int access(const char*, int) override NOSYS(-1)
    int truncate(const char*, off_t) override NOSYS(-1)
    int utime(const char*, const struct utimbuf*) override NOSYS(-1)
    int utimes(const char*, const struct timeval[2]) override NOSYS(-1)
    int lutimes(const char*, const struct timeval[2]) override NOSYS(-1)
    int mknod(const char*, mode_t, dev_t) override NOSYS(-1)
    int syncfs() override { return 0; }
    photon::fs::DIR* opendir(const char*) override NOSYS(nullptr)
};

// ------------------------------------------------------------------ mock SOURCE
class SrcFile : public FileBase {
public:
    int fid; IFileSystem* fs;
    SrcFile(int fid, IFileSystem* fs) : fid(fid), fs(fs) {}
    IFileSystem* filesystem() override { return fs; }
    int fstat(struct stat* st) override {
        memset(st, 0, sizeof *st); st->st_mode = S_IFREG | 0444; st->st_size = W->fsize[fid];
        if (env_yield(Y_SRC_META, "source fstat yields")) thread_yield();
        return 0;
    }
    ssize_t preadv(const struct iovec* iov, int cnt, off_t off) override {
        size_t len = 0; for (int i = 0; i < cnt; i++) len += iov[i].iov_len;
        off_t S = W->fsize[fid];
        char b[64]; snprintf(b, sizeof b, "%c%lld+%zu ", 'a' + fid, (long long)off, len); W->srclog += b; W->nsrc++;
        if (off < 0 || len == 0 || (off_t)(off + len) > S)
            pmc_violation("source-read-beyond-size", "the cache asked the source file %s (size %lld) for offset %lld length %zu", W->fname[fid].c_str(), (long long)S, (long long)off, len);
        ReadCtx* c = nullptr; { auto it = W->ctx.find(photon::CURRENT); if (it != W->ctx.end()) c = it->second; }
        if (c) c->nsrc++;
        // what the source does with this request: 0 full, 1 yields in the middle then full, 2 short, 3 EIO
        int menu[4], nm = 0; menu[nm++] = 0;
        if (!W->quiet && W->yon[Y_SRC_DATA]) menu[nm++] = 1;
        if (!W->quiet && W->faults) { menu[nm++] = 2; menu[nm++] = 3; }
        int ans = menu[pmc_choose(nm, PMC_ENV, 1, W->faults ? (W->yon[Y_SRC_DATA] ? "source pread: full / yields then full / short / EIO" : "source pread: full / short / EIO") : "source pread: full / yields then full")];
        if (ans == 1) { W->nyield++; thread_yield(); }
        if (ans == 3) { W->nfault++; if (c) c->fault |= F_EIO; errno = EIO; return -1; }
        size_t n = len;
        if (ans == 2) { W->nfault++; if (c) c->fault |= F_SHORT; n = len > PG ? PG : len / 2; }
        size_t done = 0;
        for (int i = 0; i < cnt && done < n; i++) {
            size_t k = std::min(iov[i].iov_len, n - done);
            uint8_t* d = (uint8_t*)iov[i].iov_base;
            for (size_t j = 0; j < k; j++) d[j] = fbyte(fid, off + done + j);
            done += k;
        }
        return (ssize_t)n;
    }
};
class SrcFs : public FsBase {
public:
    IFile* open(const char* path, int flags, mode_t) override {
        int fid = fid_of(path);
        if (fid < 0) { errno = ENOENT; return nullptr; }
        if ((flags & O_ACCMODE) != O_RDONLY) { errno = EROFS; return nullptr; }
        if (env_yield(Y_SRC_META, "source open yields")) thread_yield();
        return new SrcFile(fid, this);
    }
    int stat(const char* path, struct stat* st) override {
        int fid = fid_of(path);
        if (fid < 0) { errno = ENOENT; return -1; }
        memset(st, 0, sizeof *st); st->st_mode = S_IFREG | 0444; st->st_size = W->fsize[fid]; return 0;
    }
};

// ------------------------------------------------------------------ mock MEDIA
static void fill_stat(Inode* n, struct stat* st) {
    memset(st, 0, sizeof *st); st->st_mode = S_IFREG | 0644; st->st_size = n->size; st->st_blksize = PG;
    st->st_blocks = (blkcnt_t)(n->pg.size() * (PAGE_COST / 512));
}
class MediaFile : public FileBase {
public:
    std::shared_ptr<Inode> ino; IFileSystem* fs;
    MediaFile(std::shared_ptr<Inode> i, IFileSystem* fs) : ino(i), fs(fs) {}
    IFileSystem* filesystem() override { return fs; }
    int fstat(struct stat* st) override {
        fill_stat(ino.get(), st);
        if (env_yield(Y_MEDIA_NS, "media fstat yields (answer taken before)")) thread_yield();
        return 0;
    }
    int ftruncate(off_t len) override {
        if (env_yield(Y_MEDIA_DATA, "media ftruncate yields (before taking effect)")) thread_yield();
        if (len < 0) { errno = EINVAL; return -1; }
        ino->truncate(len); return 0;
    }
    ssize_t preadv(const struct iovec* iov, int cnt, off_t off) override {
        if (env_yield(Y_MEDIA_DATA, "media pread yields (before reading)")) thread_yield();
        if (off < 0) { errno = EINVAL; return -1; }
        size_t total = 0;
        for (int i = 0; i < cnt; i++) {
            uint8_t* d = (uint8_t*)iov[i].iov_base; size_t left = iov[i].iov_len;
            while (left) {
                off_t pos = off + total;
                if (pos >= ino->size) return total;
                size_t k = std::min<size_t>(left, PG - pos % PG); k = std::min<size_t>(k, ino->size - pos);
                uint8_t* p = ino->page(pos / PG, false);
                if (p) memcpy(d, p + pos % PG, k); else memset(d, 0, k);
                d += k; left -= k; total += k;
            }
        }
        return total;
    }
    ssize_t pwritev(const struct iovec* iov, int cnt, off_t off) override {
        if (env_yield(Y_MEDIA_DATA, "media pwrite yields (before writing)")) thread_yield();
        if (off < 0) { errno = EINVAL; return -1; }
        size_t total = 0;
        for (int i = 0; i < cnt; i++) {
            const uint8_t* s = (const uint8_t*)iov[i].iov_base; size_t left = iov[i].iov_len;
            while (left) {
                off_t pos = off + total;
                size_t k = std::min<size_t>(left, PG - pos % PG);
                memcpy(ino->page(pos / PG, true) + pos % PG, s, k);
                s += k; left -= k; total += k;
            }
        }
        if ((off_t)(off + total) > ino->size) ino->size = off + total;
        return total;
    }
    int fallocate(int mode, off_t off, off_t len) override {
        if (env_yield(Y_MEDIA_DATA, "media fallocate yields (before taking effect)")) thread_yield();
        if (mode != 3 || off < 0 || len <= 0) { errno = EOPNOTSUPP; return -1; }      // PUNCH_HOLE | KEEP_SIZE only
        off_t end = off + len;
        for (auto it = ino->pg.begin(); it != ino->pg.end();) {
            off_t ps = it->first * PG, pe = ps + PG;
            if (ps >= off && pe <= end) { blk_release(it->second); it = ino->pg.erase(it); continue; }
            off_t a = std::max(ps, off), b = std::min(pe, end);
            if (a < b) memset(it->second + (a - ps), 0, b - a);
            ++it;
        }
        return 0;
    }
    int fiemap(struct photon::fs::fiemap* m) override {
        if (!W->fie) { errno = EOPNOTSUPP; return -1; }
        uint64_t s = m->fm_start, e = m->fm_start + m->fm_length; uint32_t n = 0;
        m->fm_mapped_extents = 0;
        for (auto it = ino->pg.begin(); it != ino->pg.end();) {
            uint64_t a = it->first * PG, b = a + PG; auto jt = std::next(it);
            while (jt != ino->pg.end() && jt->first * PG == b) { b += PG; ++jt; }
            if (b > s && a < e && n < m->fm_extent_count) {
                auto& x = m->fm_extents[n++]; memset(&x, 0, sizeof x);
                x.fe_logical = a; x.fe_physical = (1ull << 30) + a; x.fe_length = b - a; x.fe_flags = (jt == ino->pg.end()) ? FIEMAP_EXTENT_LAST : 0;
            }
            it = jt;
        }
        m->fm_mapped_extents = n;
        if (env_yield(Y_MEDIA_DATA, "media fiemap yields (answer taken before)")) thread_yield();
        return 0;
    }
    off_t lseek(off_t off, int whence) override {
        if (whence != SEEK_DATA && whence != SEEK_HOLE) { errno = EINVAL; return -1; }
        if (off < 0 || off >= ino->size) { errno = ENXIO; return -1; }
        if (whence == SEEK_DATA) {
            for (auto& p : ino->pg) {
                off_t a = p.first * PG, b = a + PG;
                if (b <= off) continue;
                off_t r = std::max(a, off);
                if (r >= ino->size) break;
                return r;
            }
            errno = ENXIO; return -1;
        }
        off_t pos = off;
        while (pos < ino->size && ino->page(pos / PG, false)) pos = (pos / PG + 1) * PG;
        return std::min(pos, ino->size);
    }
};
class MockDir : public photon::fs::DIR {
public:
    std::vector<dirent> ents; size_t i = 0;
    int closedir() override { return 0; }
    dirent* get() override { return i < ents.size() ? &ents[i] : nullptr; }
    int next() override { if (i < ents.size()) i++; return i < ents.size() ? 1 : 0; }
    void rewinddir() override { i = 0; }
    void seekdir(long long loc) override { i = loc; }
    long long telldir() override { return i; }
};
static std::string norm(const char* p) { std::string s(p); while (s.size() > 1 && s.back() == '/') s.pop_back(); return s; }
class MediaFs : public FsBase {
public:
    IFile* open(const char* path, int flags, mode_t) override {
        std::string p = norm(path);
        auto it = W->files.find(p);
        std::shared_ptr<Inode> ino;
        if (it == W->files.end()) {
            if (!(flags & O_CREAT)) { errno = ENOENT; if (env_yield(Y_MEDIA_NS, "media open(ENOENT) yields")) thread_yield(); return nullptr; }
            ino = std::make_shared<Inode>(); W->files[p] = ino;
        } else ino = it->second;
        if (env_yield(Y_MEDIA_NS, "media open yields")) thread_yield();
        return new MediaFile(ino, this);
    }
    int mkdir(const char* path, mode_t) override {
        std::string p = norm(path);
        if (W->dirs.count(p) || W->files.count(p)) { errno = EEXIST; return -1; }
        W->dirs.insert(p); return 0;
    }
    int unlink(const char* path) override {
        if (env_yield(Y_MEDIA_NS, "media unlink yields (before taking effect)")) thread_yield();
        auto it = W->files.find(norm(path));
        if (it == W->files.end()) { errno = ENOENT; return -1; }
        W->files.erase(it); return 0;                           // open handles keep the inode alive (POSIX)
    }
    int truncate(const char* path, off_t len) override {
        if (env_yield(Y_MEDIA_NS, "media truncate yields (before taking effect)")) thread_yield();
        auto it = W->files.find(norm(path));
        if (it == W->files.end()) { errno = ENOENT; return -1; }
        it->second->truncate(len); return 0;
    }
    int stat(const char* path, struct stat* st) override {
        std::string p = norm(path);
        auto it = W->files.find(p);
        int r = 0;
        if (it != W->files.end()) fill_stat(it->second.get(), st);
        else if (p == "/" || W->dirs.count(p)) { memset(st, 0, sizeof *st); st->st_mode = S_IFDIR | 0755; }
        else r = -1;
        if (env_yield(Y_MEDIA_NS, "media stat yields (answer taken before)")) thread_yield();
        if (r) errno = ENOENT;
        return r;
    }
    int access(const char* path, int) override { struct stat st; return stat(path, &st); }
    int statvfs(const char*, struct statvfs* b) override {
        memset(b, 0, sizeof *b);
        uint64_t used = 0; for (auto& f : W->files) used += f.second->pg.size() * PAGE_COST;
        b->f_bsize = b->f_frsize = PG; b->f_blocks = DISK_TOTAL / PG;
        b->f_bfree = b->f_bavail = used >= DISK_TOTAL ? 0 : (DISK_TOTAL - used) / PG;
        if (env_yield(Y_MEDIA_NS, "media statvfs yields (answer taken before)")) thread_yield();
        return 0;
    }
    photon::fs::DIR* opendir(const char* path) override {
        std::string p = norm(path);
        if (p != "/" && !W->dirs.count(p)) { errno = ENOENT; return nullptr; }
        std::string pre = p == "/" ? "/" : p + "/";
        auto d = new MockDir;
        auto add = [&](const std::string& full, unsigned char type) {
            if (full.size() <= pre.size() || full.compare(0, pre.size(), pre) != 0) return;
            std::string rest = full.substr(pre.size());
            if (rest.find('/') != std::string::npos) return;
            dirent e; memset(&e, 0, sizeof e); e.d_type = type; snprintf(e.d_name, sizeof e.d_name, "%s", rest.c_str());
            d->ents.push_back(e);
        };
        for (auto& x : W->dirs) add(x, DT_DIR);
        for (auto& x : W->files) add(x.first, DT_REG);
        if (env_yield(Y_MEDIA_NS, "media opendir yields (listing taken before)")) thread_yield();
        return d;
    }
};

// ------------------------------------------------------------------ the cache under test
static void build_cache(bool async_scan) {
    bool q = W->quiet; W->quiet = true;       // construction itself (fiemap probe, synchronous scan) runs with the default environment
    // capacity 1 GB: water mark 0.9 GB, risk mark 0.95 GB. 2 blocks (630 MB) are below both, 3 blocks (945 MB) are above the water
    // mark (the timer evicts) but below the risk mark, the 4th block reaches the risk mark (the writer evicts inline: forceRecycle)
    uint64_t capGB = 16, floor = 0;
    if (W->pool == "cap1") capGB = 1;
    else if (W->pool == "cap0") capGB = 0;                                  // always full: every refill is followed by an eviction of everything
    else if (W->pool == "disk") floor = DISK_TOTAL - PAGE_COST * 3 / 2;       // free-space floor: crossed by the 2nd block (probed at every block)
    if (W->pool == "quota") {
        auto pool = new QuotaFilePool(new MediaFs, 16, LONG_US, 0, W->ru, 1);
        pool->Init();
        pool->set_quota("/q/", 1ull << 30);                                   // directory /q: same marks as cap1
        W->cfs = new_cached_fs(W->src, pool, 4096, &W->alloc, nullptr);
    } else {
        W->cfs = new_full_file_cached_fs(W->src, new MediaFs, W->ru, capGB, LONG_US, floor, &W->alloc, 0, nullptr, LONG_US, async_scan);
    }
    if (!W->cfs) pmc_broken("cannot build the cached fs");
    W->quiet = q;
}

static std::string disk_state() {
    std::string s;
    for (auto& f : W->files) {
        char b[64]; snprintf(b, sizeof b, "%s:%lld:", f.first.c_str(), (long long)f.second->size); s += b;
        for (auto& p : f.second->pg) { snprintf(b, sizeof b, "%llu,", (unsigned long long)p.first); s += b; }
        s += ' ';
    }
    return s;
}

// one checked read through the cached file
static ssize_t checked_read(IFile* f, int fid, RSpec rs, const char* who) {
    off_t S = W->fsize[fid];
    size_t expect = rs.off >= S ? 0 : std::min<size_t>(rs.len, S - rs.off);
    size_t n1 = (rs.split > 0 && rs.split < rs.len) ? rs.split : rs.len, n2 = rs.len - n1;
    uint8_t* b1 = (uint8_t*)blk_alloc(n1); uint8_t* b2 = n2 ? (uint8_t*)blk_alloc(n2) : nullptr;
    memset(b1, 0xEE, n1); if (b2) memset(b2, 0xEE, n2);
    struct iovec iov[2] = {{b1, n1}, {b2, n2}};
    ReadCtx c; W->ctx[photon::CURRENT] = &c;
    errno = 0;
    ssize_t r = n2 ? f->preadv(iov, 2, rs.off) : f->pread(b1, n1, rs.off);
    int e = errno;
    W->ctx.erase(photon::CURRENT);
    char tag[96];
    if (r < 0) {
        if (!c.fault)
            pmc_violation("read-failed-without-source-fault", "%s: cached read of %s off=%lld len=%zu returned %zd (errno %d) although no source read issued by it failed or was short (size %lld, %d source reads by it); log: %s",
                          who, W->fname[fid].c_str(), (long long)rs.off, rs.len, r, e, (long long)S, c.nsrc, W->log.c_str());
        snprintf(tag, sizeof tag, "%s=fail(f%d) ", who, c.fault);
    } else {
        if ((size_t)r > expect)
            pmc_violation("count-beyond-size", "%s: cached read of %s off=%lld len=%zu returned %zd bytes, the source has only %zu there (size %lld)", who, W->fname[fid].c_str(), (long long)rs.off, rs.len, r, expect, (long long)S);
        for (size_t i = 0; i < (size_t)r; i++) {
            uint8_t got = i < n1 ? b1[i] : b2[i - n1], want = fbyte(fid, rs.off + i);
            if (got != want)
                pmc_violation("wrong-bytes", "%s: cached read of %s off=%lld len=%zu (pieces %zu+%zu) returned %zd; byte %zu (file offset %lld) is 0x%02x, the source has 0x%02x%s; size %lld, source faults injected into this read: %d; log: %s; source reads: %s",
                              who, W->fname[fid].c_str(), (long long)rs.off, rs.len, n1, n2, r, i, (long long)(rs.off + i), got, want,
                              got == 0 ? " (zero = a hole of the media file)" : got == 0xEE ? " (buffer not written)" : "", (long long)S, c.fault, W->log.c_str(), W->srclog.c_str());
        }
        if ((size_t)r < expect) {
            // correct bytes but fewer than the source has
            if (!(c.fault & F_SHORT))
                pmc_violation("wrong-count", "%s: cached read of %s off=%lld len=%zu returned %zd, expected %zu (size %lld); source faults injected into this read: %d; log: %s", who, W->fname[fid].c_str(), (long long)rs.off, rs.len, r, expect, (long long)S, c.fault, W->log.c_str());
            pmc_violation("short-count-returned", "%s: cached read of %s off=%lld len=%zu returned the positive count %zd instead of %zu or -1 after a short source read; log: %s", who, W->fname[fid].c_str(), (long long)rs.off, rs.len, r, expect, W->log.c_str());
        }
        snprintf(tag, sizeof tag, "%s=%zd/s%d ", who, r, c.nsrc);
    }
    W->log += tag;
    blk_release(b1); blk_release(b2);
    return r;
}

static std::vector<RSpec> alphabet(off_t S, int level) {
    std::vector<RSpec> v;
    auto add = [&](off_t off, size_t len, size_t split) {
        if (off < 0 || off > S || len == 0) return;
        if (split >= len) split = 0;
        for (auto& x : v) if (x.off == off && x.len == len && x.split == split) return;
        v.push_back({off, len, split});
    };
    add(0, S + PG, (S + 1) / 2);          // the whole file and beyond, two pieces cut in the middle
    add(0, 1, 0);                         // first byte
    add(PG - 1, 2, 1);                    // across the first page boundary, 1+1
    add(PG, PG + 1, 0);                   // second page and one byte of the third
    add(1, S, PG - 1);                    // everything but the first byte, one byte beyond EOF, cut at the page boundary
    add(S - 1, PG, 0);                    // last byte, length beyond EOF
    if (level >= 2) {
        add(0, PG, 0);                    // exactly the first page
        add(PG + 1, PG - 2, 7);           // inside the second page
        add(S, 16, 0);                    // at EOF
        add(2 * PG - 1, PG + 2, 1);       // across the second boundary into the tail
        add(S / PG * PG, PG, 0);          // the last (partial) page
    }
    return v;
}
static RSpec choose_spec(int fid, const char* label, int limit = 0) {
    auto v = alphabet(W->fsize[fid], W->alevel);
    if (limit && (int)v.size() > limit) v.resize(limit);
    int k = pmc_choose((int)v.size(), PMC_PROG, 0, label);
    char b[64]; snprintf(b, sizeof b, "[%lld+%zu/%zu]", (long long)v[k].off, v[k].len, v[k].split); W->log += b;
    return v[k];
}

static void actor_body(int idx) {
    Actor& a = W->actors[idx];
    a.state = 1;
    char who[8]; snprintf(who, sizeof who, "%c%d", a.role, idx);
    if (a.role == 'R' || (a.role == 'E' && a.action == 2)) {
        // a reader: own handle, one read, close.  (evictor action 2 = "fill the pool": read the other file completely)
        IFile* f = W->cfs->open(W->fname[a.fid].c_str(), O_RDONLY);
        if (!f) pmc_violation("open-failed", "%s: open(%s) through the cached fs failed, errno %d", who, W->fname[a.fid].c_str(), errno);
        a.ret = checked_read(f, a.fid, a.spec, who);
        delete f;
    } else if (a.action == 1) {
        int r = W->cfs->get_pool()->evict(std::string_view(W->fname[0]));
        char b[32]; snprintf(b, sizeof b, "%s=evict:%d ", who, r); W->log += b;
    } else if (a.action == 4) {
        // prefetch the whole file (fadvise WILLNEED -> try_refill_range: refill without a caller buffer)
        IFile* f = W->cfs->open(W->fname[0].c_str(), O_RDONLY);
        if (!f) pmc_violation("open-failed", "%s: open for prefetch failed, errno %d", who, errno);
        ReadCtx c; W->ctx[photon::CURRENT] = &c;
        int r = f->fadvise(0, W->fsize[0], POSIX_FADV_WILLNEED);
        W->ctx.erase(photon::CURRENT);
        // the result is only recorded: a prefetch may legitimately fail without a source fault (ENOSPC when the pool is full)
        char b[32]; snprintf(b, sizeof b, "%s=prefetch:%d/s%d ", who, r, c.nsrc); W->log += b;
        delete f;
    } else if (a.action == 3) {
        // 300 virtual seconds pass: the pool's eviction timer fires, released stores outlive their TTL
        sv::advance_to(sv::vnow + 3 * LONG_US);
        thread_yield(); thread_yield();
        char b[32]; snprintf(b, sizeof b, "%s=time ", who); W->log += b;
    }
    a.state = 2;
}

static void run_actors(const std::vector<int>& order) {
    photon::semaphore fin;
    for (int i : order) thread_create11(512 * 1024, [i, &fin] { actor_body(i); fin.signal(1); });
    fin.wait(order.size());
    thread_yield();
}

static void on_deadlock() {
    std::string s;
    for (size_t i = 0; i < W->actors.size(); i++) { char b[32]; snprintf(b, sizeof b, "%c%zu:%s ", W->actors[i].role, i, W->actors[i].state == 2 ? "done" : W->actors[i].state == 1 ? "BLOCKED" : "not-started"); s += b; }
    pmc_violation("blocked-forever", "every photon thread is blocked and nothing can wake them (virtual time %llu us): %s; log: %s", (unsigned long long)(sv::vnow - sv::T0), s.c_str(), W->log.c_str());
}
static bool watchdog(uint64_t*) {
    if (sv::vnow - sv::T0 > 40 * LONG_US) on_deadlock();
    return false;
}

// the whole file through a fresh handle, environment at its defaults (no choice points)
static void quiet_full_read(const char* who, bool twice) {
    bool q = W->quiet; W->quiet = true;
    IFile* f = W->cfs->open(W->fname[0].c_str(), O_RDONLY);
    if (!f) pmc_violation("open-failed", "%s: open failed, errno %d", who, errno);
    checked_read(f, 0, {0, (size_t)W->fsize[0] + 1, 0}, who);
    if (twice) checked_read(f, 0, {0, (size_t)W->fsize[0], (size_t)PG}, who);      // second time from whatever the first one left in the cache
    delete f;
    W->quiet = q;
}

// One execution = one VARIANT (first PROG choice of the suite) + the program choices of its scenario + the environment's answers.
// variant "<scenario>:<pool>:<fie|rng>:ru<4|8>:s<size>[,<size>...]:a<1|2>:y<classes>"
//   scenario  rr        two concurrent readers on a cold cache
//             re<c|w|p|P|r|a><1|2|3|4>  reader, evictor, reader (3 start orders) on a cold / warm (whole file cached) / partly warm
//                       (p: only the first refill unit cached, P: only the last) cache /
//                       warm media reused by a new pool with sync scan / with async scan;
//                       evictor: 1 pool->evict(file), 2 fills the pool through /b, 3 lets 300 s pass (pool timer, store TTL),
//                       4 prefetches the whole file (fadvise WILLNEED)
//             sq        sequential: read, punch (no read in flight), reuse of the media by a new pool, read
//             sqx       the same with files of at most one page, where "punch from 4096 to the end" starts at or beyond EOF
//   pool      cap1 | cap0 | disk | big | quota     map: fiemap works / range map + SEEK_DATA,SEEK_HOLE
//   y         0 source pread yields, 1 source open/fstat yield, 2 media pread/pwrite/ftruncate/fallocate/fiemap yield,
//             3 media open/stat/fstat/unlink/truncate/statvfs/opendir yield, f source pread may be short or fail
struct Suite { const char* name; std::vector<const char*> variants; };
static const Suite SUITES[] = {
    // ---- quick tier (environment deviations <= 2)
    {"conc-q", {
        "rr:cap1:fie:ru4:s8193:a1:y012f",
        "rr:big:rng:ru8:s4097:a1:y012f",
        "rew1:cap1:fie:ru4:s8193:a1:y012f",
        "rew1:cap1:rng:ru8:s8193:a1:y012f",
        "rew1:quota:fie:ru4:s8193:a1:y02f",
        "rec1:cap0:fie:ru4:s4097:a1:y012f",
        "rew2:cap1:fie:ru4:s8193:a1:y02f",
        "rec2:disk:rng:ru4:s4097:a1:y02f",
        "rew3:cap1:fie:ru4:s8193:a1:y012f",
        "rew4:cap1:fie:ru4:s8193:a1:y02f",
        "rea1:cap1:fie:ru4:s8193:a1:y023f",
        "rep1:cap1:fie:ru4:s8193:a1:y02f",
        "reP1:big:rng:ru4:s8193:a1:y02f",
    }},
    {"seq-q", {
        "sq:cap1:fie:ru4:s8193:a1:yf",
        "sq:big:rng:ru8:s1,4095,4096,4097:a1:yf",
    }},
    // ---- thorough tier (environment deviations <= 3)
    {"readers-t", {
        "rr:cap1:fie:ru4:s8193:a2:y0123f",
        "rr:cap1:rng:ru8:s12288:a2:y012f",
        "rr:big:fie:ru8:s1,4095,4096,4097:a2:y012f",
        "rr:big:rng:ru4:s8192:a1:y012f",
        "rr:cap0:fie:ru4:s8193:a1:y012f",
        "rr:quota:rng:ru4:s8193:a1:y012f",
    }},
    {"evict-t", {
        "rew1:cap1:fie:ru4:s8193:a2:y0123f",
        "rew1:cap1:rng:ru8:s8193:a2:y012f",
        "rec1:cap1:fie:ru8:s12288:a1:y012f",
        "rew1:quota:fie:ru4:s8193:a1:y0123f",
        "rec1:cap0:fie:ru4:s4097:a1:y012f",
        "rew1:cap0:rng:ru4:s8193:a1:y012f",
        "rew2:cap1:fie:ru4:s8193:a1:y0123f",
        "rew2:cap1:rng:ru8:s4097:a1:y02f",
        "rec2:disk:rng:ru4:s4097:a1:y023f",
        "rew2:disk:fie:ru4:s4097:a1:y02f",
        "rec2:cap0:fie:ru4:s4097:a1:y02f",
        "rew2:quota:fie:ru4:s4097:a1:y02f",
        "rew3:cap1:fie:ru4:s8193:a2:y0123f",
        "rew3:disk:rng:ru4:s8193:a1:y012f",
        "rew3:quota:fie:ru4:s8193:a1:y012f",
        "rew4:cap1:fie:ru4:s8193:a2:y012f",
        "rep1:cap1:fie:ru4:s8193:a2:y012f",
        "reP1:cap1:rng:ru4:s12288:a2:y012f",
        "rep2:cap1:rng:ru4:s8193:a1:y02f",
        "rep3:cap1:fie:ru4:s8193:a1:y02f",
        "rec4:big:rng:ru8:s8193:a1:y012f",
        "rec4:cap0:fie:ru4:s4097:a1:y02f",
    }},
    {"reuse-t", {
        "rer1:cap1:fie:ru4:s8193:a1:y0123f",
        "rea1:cap1:fie:ru4:s8193:a1:y023f",
        "rea1:cap1:rng:ru8:s8193:a1:y023f",
        "rea2:cap1:rng:ru4:s8193:a1:y23f",
        "rea3:cap1:fie:ru4:s8193:a1:y023f",
        "rer2:disk:fie:ru4:s4097:a1:y02f",
    }},
    {"seq-t", {
        "sq:cap1:fie:ru4:s8193:a2:yf",
        "sq:cap1:rng:ru8:s8193,12288:a2:yf",
        "sq:big:rng:ru8:s1,4095,4096,4097:a2:yf",
        "sq:big:fie:ru4:s1,4095,4096,4097,8192:a1:yf",
        "sq:cap1:rng:ru4:s8193:a1:y3f",
        "sq:cap0:fie:ru4:s4097:a1:yf",
        "sq:quota:fie:ru4:s8193:a1:yf",
    }},
    // ---- the finding: "evict from 4096 to the end" on a file that ends before 4096 (both tiers)
    {"x-punch-eof", { "sqx:big:rng:ru4:s4095:a1:y-", "sqx:big:fie:ru4:s4096:a1:y-" }},
};

void pmc_run(const char* config) {
    World w; W = &w;
    pmc_window(1);
    {
        const Suite* su = nullptr;
        for (auto& x : SUITES) if (!strcmp(x.name, config)) su = &x;
        if (!su) pmc_broken("unknown suite %s", config);
        const char* var = su->variants[pmc_choose((int)su->variants.size(), PMC_PROG, 0, "variant")];
        w.log = var; w.log += " ";
        char scn[8], pool[8], map[8], sizes[64], ys[8]; int ru, al;
        if (sscanf(var, "%7[^:]:%7[^:]:%7[^:]:ru%d:s%63[^:]:a%d:y%7s", scn, pool, map, &ru, sizes, &al, ys) != 7) pmc_broken("bad variant %s", var);
        w.family = scn; w.pool = pool; w.fie = !strcmp(map, "fie"); w.ru = ru * 1024; w.alevel = al;
        for (char* t = strtok(sizes, ","); t; t = strtok(nullptr, ",")) w.sizes.push_back(atoll(t));
        for (int i = 0; i < 4; i++) w.yon[i] = strchr(ys, '0' + i) != nullptr;
        w.faults = strchr(ys, 'f') != nullptr;
    }
    bool quota = w.pool == "quota";
    w.fname[0] = quota ? "/q/a" : "/a"; w.fname[1] = quota ? "/q/b" : "/b";
    w.fsize[1] = PG + 1;
    w.fsize[0] = w.sizes[pmc_choose((int)w.sizes.size(), PMC_PROG, 0, "source file size")];
    { char b[32]; snprintf(b, sizeof b, "S%lld ", (long long)w.fsize[0]); w.log += b; }

    sv::use_fast_stacks = false;
    photon::set_photon_thread_stack_allocator({&stack_alloc, nullptr}, {&stack_dealloc, nullptr});
    sv::init();
    sv::on_deadlock = on_deadlock; sv::env_next_event = watchdog;
    if (!pmc_verbose()) set_log_output_level(ALOG_FATAL + 1);
    SrcFs src; w.src = &src;
    build_cache(false);

    if (w.family == "rr") {
        w.actors.resize(2);
        for (int i = 0; i < 2; i++) { w.actors[i].role = 'R'; w.actors[i].fid = 0; w.actors[i].spec = choose_spec(0, i ? "reader 2 range" : "reader 1 range"); }
        run_actors({0, 1});
    } else if (w.family.size() == 4 && w.family[0] == 'r' && w.family[1] == 'e') {
        if (w.family[2] == 'p' || w.family[2] == 'P') {        // partly warm: only the first / only the last refill unit is cached
            bool q = w.quiet; w.quiet = true;
            IFile* f = w.cfs->open(w.fname[0].c_str(), O_RDONLY);
            if (!f) pmc_violation("open-failed", "W: open failed, errno %d", errno);
            checked_read(f, 0, w.family[2] == 'p' ? RSpec{0, 1, 0} : RSpec{w.fsize[0] - 1, 1, 0}, "W");
            delete f; w.quiet = q;
        } else
        if (w.family[2] != 'c') quiet_full_read("W", false);
        if (w.family[2] == 'r' || w.family[2] == 'a') {       // the actors meet a NEW pool on the media left by the old one (sync / async scan)
            delete w.cfs; w.cfs = nullptr;
            build_cache(w.family[2] == 'a');
        }
        w.actors.resize(3);
        w.actors[0].role = 'R'; w.actors[0].fid = 0; w.actors[0].spec = choose_spec(0, "reader 1 range", w.alevel == 1 ? 4 : 0);
        w.actors[1].role = 'E'; w.actors[1].action = w.family[3] - '0'; w.actors[1].fid = 1; w.actors[1].spec = {0, PG + 2, 0};
        w.actors[2].role = 'R'; w.actors[2].fid = 0; w.actors[2].spec = choose_spec(0, "reader 2 range", w.alevel == 1 ? 2 : 3);
        int ord = pmc_choose(3, PMC_PROG, 0, "start order: R1 E R2 / E R1 R2 / R1 R2 E");
        { char b[8]; snprintf(b, sizeof b, "o%d ", ord); w.log += b; }
        static const int ORD[3][3] = {{0, 1, 2}, {1, 0, 2}, {0, 2, 1}};
        run_actors({ORD[ord][0], ORD[ord][1], ORD[ord][2]});
    } else if (w.family == "sq" || w.family == "sqx") {
        w.actors.resize(1);
        bool x = w.family == "sqx";
        w.actors[0].role = 'R'; w.actors[0].fid = 0; w.actors[0].spec = choose_spec(0, "first read", x ? 2 : 0);
        run_actors({0});
        // no read in flight from here on: range punching through the cached file (fallocate == trim == evict(offset, count))
        // "to the end" starts inside the file, except in scenario sqx (start at or beyond EOF)
        bool toend_ok = w.family == "sqx" || w.fsize[0] > (off_t)PG;
        int punch = x ? 3 : pmc_choose(toend_ok ? 4 : 3, PMC_PROG, 0, "punch: none / [4096,8192) / [1,4097) -> rounded outwards / from 4096 to the end");
        if (punch) {
            IFile* f = W->cfs->open(W->fname[0].c_str(), O_RDONLY);
            if (!f) pmc_violation("open-failed", "open for punching failed");
            int r = punch == 1 ? f->fallocate(3, PG, PG) : punch == 2 ? f->fallocate(3, 1, PG) : f->fallocate(3, PG, -1);
            char b[32]; snprintf(b, sizeof b, "punch%d:%d ", punch, r); w.log += b;
            delete f;
        }
        int reuse = pmc_choose(x ? 2 : 3, PMC_PROG, 0, "reuse: keep the pool / new pool on the same media, sync scan / async scan");
        if (reuse) {
            delete w.cfs; w.cfs = nullptr;
            build_cache(reuse == 2);
            char b[16]; snprintf(b, sizeof b, "reuse%d ", reuse); w.log += b;
        }
        w.actors.resize(2); w.actors[1].role = 'R'; w.actors[1].fid = 0; w.actors[1].spec = choose_spec(0, "second read", x ? 2 : 0);
        run_actors({1});
    } else pmc_broken("unknown scenario %s", w.family.c_str());

    w.actors.clear();
    quiet_full_read("V", true);
    pmc_window(0);
    pmc_obs("%s| src:%s| y%d f%d | %s", w.log.c_str(), w.srclog.c_str(), w.nyield, w.nfault, disk_state().c_str());
    delete w.cfs; w.cfs = nullptr;
    sv::fini();
    W = nullptr;
}

static const PmcConfig CFG[] = {
    // suite       tiers  sched  time   env    total
    {"conc-q",       1, {0,0}, {0,0}, {2,2}, {0,0}, "two readers / reader-evictor-reader on cold, warm and reused caches; fiemap and range-map; capacity, always-full, disk-floor and quota pools"},
    {"seq-q",        1, {0,0}, {0,0}, {2,2}, {0,0}, "sequential: read, punch (no read in flight), reuse by a new pool (sync/async scan), read; file sizes 1..8193"},
    {"readers-t",    2, {0,0}, {0,0}, {3,3}, {0,0}, "two concurrent readers, full alphabet"},
    {"evict-t",      2, {0,0}, {0,0}, {3,3}, {0,0}, "reader, evictor (evict / fill / 300 s pass / prefetch), reader"},
    {"reuse-t",      2, {0,0}, {0,0}, {3,3}, {0,0}, "the same actors on a new pool built on the old pool's media (sync and async scan)"},
    {"seq-t",        2, {0,0}, {0,0}, {3,3}, {0,0}, "sequential: read, punch, reuse, read; full alphabet"},
    {"x-punch-eof",  3, {0,0}, {0,0}, {0,0}, {0,0}, "punch from 4096 to the end of a file that ends at or before 4096, then reuse / keep, then read"},
};
const PmcConfig* pmc_configs(int* n) { *n = sizeof CFG / sizeof CFG[0]; return CFG; }
const char* pmc_property(void) { return "C17"; }
const char* pmc_target(void) { return "cache_sv"; }
int main(int argc, char** argv) { return pmc_main(argc, argv); }
