// C04 sleep_prog: every program of K photon threads x 2 ops over {sleep d, yield, interrupt j with errno e} on ONE vCPU
// under the virtual clock. Oracle = the wake-up contract of thread_usleep / thread_yield / thread_interrupt.
#include "sv_rt.h"
#include <photon/thread/thread.h>
#include <photon/thread/thread11.h>
#include <vector>
#include <string>
#include <string.h>
#include <algorithm>
using namespace photon;

static const uint64_t TICK = 10;
enum { OP_SLEEP0, OP_SLEEP1, OP_SLEEP2, OP_SLEEP3, OP_SLEEPINF, OP_YIELD, OP_INT_A, OP_INT_B, OP_INT_A2, OP_NOP, NOPS };
// OP_INT_A: interrupt thread (me+1)%K with EINTR ; OP_INT_B: interrupt thread (me+2)%K with ECANCELED ; OP_INT_A2: interrupt (me+1)%K with EAGAIN

struct Th {
    thread* th = nullptr; int state = 0;   // 0 not started, 1 running/ready, 2 in sleep, 3 in yield, 4 done
    uint64_t sleep_start = 0, sleep_len = 0;
    std::vector<int> owed;                 // errnos of interrupts addressed to this thread and not yet consumed
    std::vector<uint64_t> owed_seq;        // global sequence number at which each was issued
    uint64_t sleep_seq = 0;                // sequence number when the current sleep began
    bool ever_ran = false;
};
static bool g_defer = false;      // config suffix 'd': the sleeps go through the public thread_usleep_defer(): the deferred function must run exactly once, after the sleeper left its stack and before it is resumed
struct DeferRec { int runs = 0; bool in_sleeper = false; photon::thread* sleeper = nullptr; };
static void defer_fn(void* a) { auto d = (DeferRec*)a; d->runs++; if (photon::CURRENT == d->sleeper) d->in_sleeper = true; }
static bool g_waitq = false;      // config suffix 'w': the sleeps go through a wait queue (condition_variable::wait_no_lock) instead of thread_usleep
static std::vector<Th> T; static int K; static std::string obs; static int slots; static uint64_t seqno;

static void deliver(int from, int to, int e) {
    // legal effects (property + documented behaviour): ends the target's current sleep, or (target READY after thread_yield) is returned
    // by that yield. The harness records it as owed; consumption is checked at the sleep/yield return.
    T[to].owed.push_back(e); T[to].owed_seq.push_back(++seqno);
    thread_interrupt(T[to].th, e);
}

static void run(int me) {
    T[me].state = 1; T[me].ever_ran = true;
    for (int s = 0; s < slots; s++) {
        char lb[32]; snprintf(lb, sizeof lb, "op t%d.%d", me, s);
        int op = pmc_choose(NOPS, PMC_PROG, 0, lb);
        if (op == OP_NOP) continue;
        if (op == OP_INT_A || op == OP_INT_B || op == OP_INT_A2) {
            int to = (me + (op == OP_INT_B ? 2 : 1)) % K; if (to == me || T[to].state == 4 || !T[to].th) continue;
            int e = op == OP_INT_A ? EINTR : op == OP_INT_B ? ECANCELED : EAGAIN;
            deliver(me, to, e);
            obs += 'a' + me; obs += "i;";
            continue;
        }
        if (op == OP_YIELD) {
            T[me].state = 3;
            int r = thread_yield();
            T[me].state = 1;
            if (r != 0) {
                auto it = std::find(T[me].owed.begin(), T[me].owed.end(), r);
                if (it == T[me].owed.end()) pmc_violation("yield-unknown-errno", "thread_yield() of thread %d returned %d but no such interrupt is outstanding", me, r);
                T[me].owed_seq.erase(T[me].owed_seq.begin() + (it - T[me].owed.begin())); T[me].owed.erase(it);
            }
            obs += 'a' + me; obs += r ? "Y!;" : "y;";
            continue;
        }
        // sleeps
        uint64_t len = op == OP_SLEEPINF ? ~0ull : (uint64_t)(op - OP_SLEEP0) * TICK;
        T[me].state = 2; T[me].sleep_start = sv::vnow; T[me].sleep_len = len; T[me].sleep_seq = ++seqno;
        errno = 0;
        int r;
        if (g_defer) {
            DeferRec d; d.sleeper = photon::CURRENT;
            r = photon::thread_usleep_defer(len == ~0ull ? Timeout() : Timeout(len), &defer_fn, &d);
            int saved = errno;
            if (d.runs != 1) pmc_violation("deferred-function-runs", "thread_usleep_defer(%llu): the deferred function ran %d times before the sleeper resumed", (unsigned long long)len, d.runs);
            if (d.in_sleeper) pmc_violation("deferred-function-in-sleeper", "the deferred function ran in the sleeping thread's own context");
            errno = saved;
        }
        else if (!g_waitq) r = thread_usleep(len);
        else {      // same contract through the waitq-based sleep: "full duration" shows as -1/ETIMEDOUT there
            photon::condition_variable cv;
            r = cv.wait_no_lock(len == ~0ull ? Timeout() : Timeout(len));
            if (r < 0 && errno == ETIMEDOUT) { r = 0; errno = 0; }
            else if (r == 0) pmc_violation("waitq-sleep-returned-0", "wait_no_lock(%llu) returned 0 although nobody notifies", (unsigned long long)len);
        }
        int e = errno; uint64_t now = sv::vnow;
        T[me].state = 1;
        if (r == 0) {
            if (len == ~0ull) pmc_violation("infinite-sleep-returned-0", "thread_usleep(-1) returned 0");
            if (now < T[me].sleep_start + len) pmc_violation("woke-early", "usleep(%llu) returned 0 after only %llu us", (unsigned long long)len, (unsigned long long)(now - T[me].sleep_start));
            obs += 'a' + me; obs += "s;";
        } else {
            // match the interrupt: prefer one issued after this sleep began (the one that really cut it short)
            auto it = T[me].owed.end();
            for (size_t q = 0; q < T[me].owed.size(); q++) if (T[me].owed[q] == e) { if (it == T[me].owed.end() || T[me].owed_seq[q] >= T[me].sleep_seq) it = T[me].owed.begin() + q; if (T[me].owed_seq[q] >= T[me].sleep_seq) break; }
            if (it == T[me].owed.end())
                pmc_violation("sleep-failed-unknown-errno", "usleep(%llu) of thread %d returned -1 errno=%d but no interrupt with that errno is outstanding for it", (unsigned long long)len, me, e);
            // "-1 with the interrupter's errno": the sleep was cut short by the FIRST interrupt issued while it lasted; a later one found
            // the thread already woken (READY, reason pending) and ended nothing, so its errno must not replace the real reason
            for (size_t q = 0; q < T[me].owed.size(); q++) if (T[me].owed_seq[q] >= T[me].sleep_seq) {
                if (T[me].owed[q] != e) pmc_violation("sleep-returned-later-interrupts-errno", "usleep(%llu) of thread %d was cut short by an interrupt with errno %d but returned errno %d, that of a later interrupt which found it already woken", (unsigned long long)len, me, T[me].owed[q], e);
                break;
            }
            uint64_t issued = T[me].owed_seq[it - T[me].owed.begin()];
            T[me].owed_seq.erase(T[me].owed_seq.begin() + (it - T[me].owed.begin())); T[me].owed.erase(it);
            // "returns -1 exactly when it was cut short": an interrupt issued BEFORE this sleep began (target was not sleeping then)
            // must not make this later sleep fail, least of all after it lasted its full duration
            if (issued < T[me].sleep_seq)
                pmc_violation(len != ~0ull && now >= T[me].sleep_start + len ? "stale-interrupt-after-full-sleep" : "stale-interrupt-ends-later-sleep",
                              "usleep(%llu) of thread %d returned -1 errno=%d at +%llu us for an interrupt issued before the sleep began", (unsigned long long)len, me, e, (unsigned long long)(now - T[me].sleep_start));
            obs += 'a' + me; obs += "S!;";
        }
        // every sleeper with a finite deadline runs no later than the first scheduling round after its deadline:
        if (len != ~0ull && r == 0 && now > T[me].sleep_start + len + 3 * TICK + 1)
            pmc_violation("woke-late", "usleep(%llu) returned at +%llu us", (unsigned long long)len, (unsigned long long)(now - T[me].sleep_start));
    }
    T[me].state = 4;
}

static void on_deadlock() {
    // all threads asleep forever: legitimate only for infinite sleepers nobody interrupts
    for (int k = 0; k < K; k++) if (T[k].state == 2 && T[k].sleep_len != ~0ull)
        pmc_violation("finite-sleeper-never-woke", "thread %d sleeps %llu us but the vCPU found nothing to wake", k, (unsigned long long)T[k].sleep_len);
    for (int k = 0; k < K; k++) if (T[k].state == 3) pmc_violation("yielder-never-ran", "thread %d", k);
    // release infinite sleepers so the run ends cleanly
    for (int k = 0; k < K; k++) if (T[k].state == 2) { T[k].owed.push_back(ECONNRESET); T[k].owed_seq.push_back(++seqno); thread_interrupt(T[k].th, ECONNRESET); }
}

void pmc_run(const char* config) {
    if (sscanf(config, "k%ds%d", &K, &slots) != 2) pmc_broken("bad config");
    g_waitq = config[strlen(config) - 1] == 'w'; g_defer = config[strlen(config) - 1] == 'd';
    T.clear(); T.resize(K); obs.clear(); seqno = 0;
    pmc_window(0);
    sv::init();
    sv::on_deadlock = on_deadlock;
    pmc_window(1);
    std::vector<join_handle*> jh;
    for (int k = 0; k < K; k++) { T[k].th = thread_create11(64 * 1024, run, k); jh.push_back(thread_enable_join(T[k].th)); }
    for (auto h : jh) thread_join(h);
    pmc_window(0);
    // an interrupt never consumed is fine only if its target was not in a sleep/yield that could take it; but it must not outlive the run silently
    // in a way that a LATER sleep would return it: covered above (unknown errno / consumption bookkeeping).
    if (get_info(INFO_SLEEPING_THREAD_NUM) != 0) pmc_violation("sleepq-not-empty", "sleep queue holds %llu threads at quiescence", (unsigned long long)get_info(INFO_SLEEPING_THREAD_NUM));
    pmc_obs("%s", obs.c_str());
    sv::fini();
}

static const PmcConfig CFG[] = {
    {"k2s2", 3, {0,0}, {0,0}, {0,0}, {0,0}, "2 threads x 2 ops: 10^4 programs"},
    {"k3s1", 3, {0,0}, {0,0}, {0,0}, {0,0}, "3 threads x 1 op"},
    {"k2s2w", 3, {0,0}, {0,0}, {0,0}, {0,0}, "the same programs with every sleep done through a wait queue (timed condition_variable wait)"},
    {"k3s1w", 3, {0,0}, {0,0}, {0,0}, {0,0}, ""},
    {"k2s2d", 3, {0,0}, {0,0}, {0,0}, {0,0}, "the same programs with every sleep done through the public thread_usleep_defer()"},
    {"k3s1d", 3, {0,0}, {0,0}, {0,0}, {0,0}, ""},
    {"k2s3", 2, {0,0}, {0,0}, {0,0}, {0,0}, "2 threads x 3 ops: 10^6 programs"},
    {"k3s2", 2, {0,0}, {0,0}, {0,0}, {0,0}, "3 threads x 2 ops: 10^6 programs"},
    {"k2s3w", 2, {0,0}, {0,0}, {0,0}, {0,0}, ""},
};
const PmcConfig* pmc_configs(int* n) { *n = sizeof CFG / sizeof CFG[0]; return CFG; }
const char* pmc_property(void) { return "C04"; }
const char* pmc_target(void) { return "sleep_prog"; }
int main(int argc, char** argv) { return pmc_main(argc, argv); }
