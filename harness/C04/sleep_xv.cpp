// C04 sleep_xv: sleepers on one vCPU, interrupts from other vCPUs / plain OS threads at every point (standby queue path,
// removal from the middle of the sleep heap, cancel_wait of the idle vCPU), under the controlled scheduler.
// ops: S<d> usleep(d*10us) (d=9: forever)   i<k> interrupt thread k with EINTR   j<k> interrupt with ECANCELED   y yield   H<k> thread_shutdown(thread k)
#include <photon/thread/thread.h>
#include "mv_prog.h"
#include <string.h>
#include <algorithm>
using namespace photon;

struct Intr { int e; uint64_t s0, s1; bool used; };
struct St {
    mvprog::Prog prog; uint64_t seq = 0;
    std::vector<Intr> intr[16]; bool sleeping[16] = {false}; uint64_t slen[16] = {0}; bool shut[16] = {false};
    std::string log;
};
static St* G;

static void body(mvprog::PT& p) {
    int me = p.idx;
    for (size_t i = 0; i < p.ops.size(); i++) {
        char op = p.ops[i];
        if (op == 'y') { thread_yield(); continue; }
        if (op == 'p') { int npad = pmc_choose(3, PMC_PROG, 0, "pad yields"); for (int kk = 0; kk < npad; kk++) thread_yield(); continue; }   // every arrival order on one vCPU
        int n = p.ops[++i] - '0';
        if (op == 'i' || op == 'j') {
            if (G->prog.pts[n].done) continue;
            G->intr[n].push_back({op == 'i' ? EINTR : ECANCELED, ++G->seq, 0, false});
            size_t idx = G->intr[n].size() - 1;
            thread_interrupt(G->prog.pts[n].th, op == 'i' ? EINTR : ECANCELED);
            G->intr[n][idx].s1 = ++G->seq;
            p.result += "i"; continue;
        }
        if (op == 'H') {
            if (G->prog.pts[n].done) continue;
            G->shut[n] = true; G->intr[n].push_back({EPERM, ++G->seq, 0, false}); size_t idx = G->intr[n].size() - 1;
            thread_shutdown(G->prog.pts[n].th);
            G->intr[n][idx].s1 = ++G->seq; p.result += "H"; continue;
        }
        // sleep
        uint64_t len = n == 9 ? ~0ull : (uint64_t)n * 10;
        uint64_t t0 = mv_now(), s0 = ++G->seq;
        if (len != ~0ull) mv_register_deadline(t0 + len);
        G->sleeping[me] = true; G->slen[me] = len; errno = 0;
        int r = thread_usleep(len);
        int e = errno; G->sleeping[me] = false; uint64_t s1 = ++G->seq; uint64_t el = mv_now() - t0;
        if (r == 0) {
            if (len == ~0ull) pmc_violation("infinite-sleep-returned-0", "thread %d", me);
            if (el < len) pmc_violation("woke-early", "usleep(%llu) returned 0 after %llu us", (unsigned long long)len, (unsigned long long)el);
            p.result += "s";
        } else {
            if (G->shut[me] && e == EPERM) { p.result += "P"; if (el > 10000 + 100) pmc_violation("shutdown-thread-blocked-too-long", "%llu us", (unsigned long long)el); continue; }
            bool ok = false;
            for (auto& x : G->intr[me]) if (!x.used && x.e == e && x.s0 <= s1 && (x.s1 == 0 || x.s1 >= s0)) { x.used = true; ok = true; break; }
            if (!ok) {
                bool any = false; for (auto& x : G->intr[me]) if (x.e == e) any = true;
                pmc_violation(any ? "interrupt-delivered-twice-or-to-later-sleep" : "sleep-failed-unknown-errno",
                              "usleep(%llu) of thread %d returned -1 errno=%d after %llu us; no unused interrupt overlapping this sleep matches", (unsigned long long)len, me, e, (unsigned long long)el);
            }
            p.result += "S!";
        }
        G->log += char('a' + me); G->log += r ? '!' : 's';
    }
}

static void on_deadlock(const char* dump) {
    for (int k = 0; k < 16; k++) if (G->sleeping[k] && G->slen[k] != ~0ull) pmc_violation("finite-sleeper-never-woke", "thread %d sleeps %llu us: %s", k, (unsigned long long)G->slen[k], dump);
    bool inf = false; for (int k = 0; k < 16; k++) if (G->sleeping[k]) inf = true;
    if (!inf) pmc_violation("deadlock", "%s", dump);
    pmc_obs("%s %s inf-sleeper-left", G->prog.results().c_str(), G->log.c_str());
    pmc_done();
}

void pmc_run(const char* config) {
    St st; G = &st;
    char prog[128]; char extra[24] = "";
    if (sscanf(config, "%127[^:]:%23s", prog, extra) < 1) pmc_broken("bad config");
    st.prog.parse(prog);
    pmc_window(0);
    mv_init(); mvp::use_fast_stacks(true);
    mv_on_deadlock = on_deadlock;
    mv_time_deviations(strstr(extra, "tdev") != nullptr);
    mv_tso(strstr(extra, "tso") != nullptr); mv_switch_points(0);     // built with -DPHOTON_VERIF for the TSC hook only
    st.prog.run(body);
    pmc_obs("%s %s", st.prog.results().c_str(), st.log.c_str());
    mv_fini(); G = nullptr;
}

static const PmcConfig CFG[] = {
    {"S9|i0",            3, {1,3}, {0,0}, {0,0}, {0,0}, "interrupt an infinite sleeper from another vCPU"},
    {"S9|@i0",           3, {2,3}, {0,0}, {0,0}, {0,0}, "... from a plain OS thread"},
    {"S2|i0:tdev",       3, {1,2}, {1,1}, {0,0}, {2,3}, "interrupt racing with the deadline"},
    {"S1,S2,S3|i1",      3, {1,2}, {0,0}, {0,0}, {0,0}, "remove from the middle of the heap"},
    {"S1,S2,S3|i1:tdev", 3, {1,1}, {1,1}, {0,0}, {2,2}, ""},
    {"S2S1,S1|i0i0",     3, {1,2}, {0,0}, {0,0}, {0,0}, "two interrupts, two sleeps: at most one each"},
    {"S2,i0|j0",         3, {1,2}, {0,0}, {0,0}, {0,0}, "same-vCPU and cross-vCPU interrupters racing"},
    {"S2,S2,S2,S1|i0i2", 2, {1,2}, {0,0}, {0,0}, {0,0}, "equal deadlines"},
    {"S9|H0",            3, {1,2}, {0,0}, {0,0}, {0,0}, "thread_shutdown of a sleeper"},
    {"pS2pS1,pS1,ppi0pi0", 3, {0,0}, {0,0}, {0,0}, {0,0}, "one vCPU, every arrival order of sleeps and interrupts"},
    {"yS3|H0",           3, {1,2}, {0,0}, {0,0}, {0,0}, "shutdown before the sleep: capped at 10 ms, EPERM"},
    {"S2yS2|i0|j0",      2, {1,2}, {0,0}, {0,0}, {0,0}, "three vCPUs"},
    {"S9|i0:tso",        3, {1,2}, {0,0}, {1,1}, {2,3}, "x86-TSO store buffers: cross-vCPU interrupt"},
    {"S2,i0|j0:tso",     3, {1,1}, {0,0}, {1,1}, {2,2}, ""},
};
const PmcConfig* pmc_configs(int* n) { *n = sizeof CFG / sizeof CFG[0]; return CFG; }
const char* pmc_property(void) { return "C04"; }
const char* pmc_target(void) { return "sleep_xv"; }
int main(int argc, char** argv) { return pmc_main(argc, argv); }
