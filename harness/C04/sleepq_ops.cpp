// C04 sleepq_ops: the scheduler's sleep queue (binary heap with back-indices in each thread), driven directly.
// Every sequence of <= D operations from { push(node k with deadline ts) , pop_front , pop(node k) } over <= 5 nodes and
// deadlines {1,2,2,3,5} against a sorted-multiset reference. Unity-includes thread.cpp to reach the class.
#include <thread/thread.cpp>            // unity include through -I$REPO (PMC_REPO aware)
#include "seqx.h"
#include <set>
#include <algorithm>
using namespace photon;

static const int NN = 5;
static const uint64_t TS[NN] = {1, 2, 2, 3, 5};

struct Node { alignas(64) char raw[sizeof(thread)]; thread* th() { return (thread*)raw; } };

static bool heap_ok(SleepQueue& q, std::string& why) {
    for (size_t i = 0; i < q.q.size(); i++) {
        if (q.q[i]->idx != (int)i) { why = "back-index"; return false; }
        if (i && q.q[(i - 1) / 2]->ts_wakeup > q.q[i]->ts_wakeup) { why = "heap-order"; return false; }
    }
    return true;
}

static void run_seq(seqx::Ctx& c, const std::vector<int>& ops) {
    // op encoding: 0..NN-1 push node k ; NN pop_front ; NN+1+k pop(node k)
    static Node nodes[NN];
    SleepQueue q; std::vector<int> in;           // reference: ids currently in the queue
    for (int k = 0; k < NN; k++) { new (nodes[k].raw) thread; nodes[k].th()->idx = -1; nodes[k].th()->ts_wakeup = TS[k]; }
    uint64_t cls = 0;
    for (size_t s = 0; s < ops.size(); s++) {
        int op = ops[s];
        if (op < NN) {
            if (std::find(in.begin(), in.end(), op) != in.end()) return;       // pushing a node twice is not a legal use: prune
            q.push(nodes[op].th()); in.push_back(op);
        } else if (op == NN) {
            if (in.empty()) return;                                              // pop_front on empty is not legal: prune
            thread* t = q.pop_front();
            uint64_t mn = ~0ull; for (int k : in) mn = std::min(mn, TS[k]);
            if (t->ts_wakeup != mn) { c.fail("pop_front-not-minimum", "step %zu: popped deadline %llu, minimum is %llu", s, (unsigned long long)t->ts_wakeup, (unsigned long long)mn); return; }
            int id = -1; for (int k = 0; k < NN; k++) if (nodes[k].th() == t) id = k;
            auto it = std::find(in.begin(), in.end(), id);
            if (it == in.end()) { c.fail("pop_front-foreign-node", "step %zu", s); return; }
            in.erase(it);
            if (t->idx != -1) { c.fail("popped-idx-not-cleared", "step %zu", s); return; }
        } else {
            int k = op - NN - 1;
            bool present = std::find(in.begin(), in.end(), k) != in.end();
            int r = q.pop(nodes[k].th());
            if (present != (r == 0)) { c.fail("pop-return", "step %zu: pop(node %d) returned %d, present=%d", s, k, r, (int)present); return; }
            if (present) { in.erase(std::find(in.begin(), in.end(), k)); if (nodes[k].th()->idx != -1) { c.fail("popped-idx-not-cleared", "step %zu", s); return; } }
            cls = seqx::mix(cls, present ? 1 + (in.size() > 1) : 0);
        }
        std::string why;
        if (q.q.size() != in.size()) { c.fail("size-mismatch", "step %zu: heap has %zu, reference %zu", s, q.q.size(), in.size()); return; }
        if (!heap_ok(q, why)) { c.fail(why == "back-index" ? "back-index-corrupt" : "heap-order-broken", "after step %zu of the sequence", s); return; }
        cls = seqx::mix(cls, op < NN ? 0 : op == NN ? 1 : 2);
    }
    // drain: must come out sorted
    uint64_t last = 0;
    while (!q.empty()) { thread* t = q.pop_front(); if (t->ts_wakeup < last) { c.fail("drain-order", "deadlines not ascending"); return; } last = t->ts_wakeup; }
    c.cls(seqx::mix(cls, in.size()));
}

static void seqx_enumerate(seqx::Ctx& c, bool thorough) {
    int D = thorough ? 8 : 6;
    const int NOPS = NN + 1 + NN;
    std::vector<int> ops;
    for (int depth = 1; depth <= D; depth++) {
        std::vector<int> idx(depth, 0);
        for (;;) {
            // cheap legality pre-filter (outside begin(): keep enumeration light)
            bool legal = true; { uint32_t in = 0; for (int s = 0; s < depth && legal; s++) { int op = idx[s];
                if (op < NN) { if (in >> op & 1) legal = false; in |= 1u << op; }
                else if (op == NN) { if (!in) legal = false; /* which one leaves is data dependent: stop tracking */ else in = 0xffffffffu >> 0, in = 0x1f; }
                else { in &= ~(1u << (op - NN - 1)); } } }
            if (legal) {
                std::string d; for (int s = 0; s < depth; s++) { int op = idx[s]; char b[16]; if (op < NN) snprintf(b, sizeof b, "push%d(ts%llu) ", op, (unsigned long long)TS[op]); else if (op == NN) snprintf(b, sizeof b, "pop_front "); else snprintf(b, sizeof b, "pop%d ", op - NN - 1); d += b; }
                if (c.begin("%s", d.c_str())) { ops.assign(idx.begin(), idx.end()); run_seq(c, ops); }
            }
            int p = depth - 1; while (p >= 0 && ++idx[p] == NOPS) { idx[p] = 0; p--; }
            if (p < 0) break;
        }
    }
}
SEQX_MAIN("C04", "sleepq_ops", "every sequence of <=6 (quick) / <=8 (thorough) operations push(node)/pop_front/pop(node) over 5 nodes with deadlines {1,2,2,3,5} on the real SleepQueue; reference = multiset of queued nodes; after every step: heap order, back-index q[i]->idx==i, size; distinct = op-kind sequence classes")
