#include "simk.h"
#include "sv_rt.h"
#include <errno.h>
#include <string.h>
#include <unistd.h>
#include <fcntl.h>
#include <stdarg.h>
#include <sys/socket.h>
#include <sys/eventfd.h>
#include <sys/syscall.h>
#include <sys/ioctl.h>
#include <sys/uio.h>
#include <algorithm>

namespace simk {
File F[MAXFD]; size_t CAP = 4; bool env_short_io = true, env_batch = true;
uint64_t n_epoll_wait = 0, n_events_delivered = 0;
static void default_stuck(const char* why) { pmc_violation("deadlock", "epoll_wait would block forever: %s", why); }
void (*on_stuck)(const char*) = default_stuck;

bool owns(int fd) { return fd >= FD0 && fd < FD0 + MAXFD && F[fd - FD0].kind != FREE; }
static File& f(int fd) { return F[fd - FD0]; }
static int alloc(Kind k) { for (int i = 0; i < MAXFD; i++) if (F[i].kind == FREE) { F[i] = File(); F[i].kind = k; return FD0 + i; } errno = EMFILE; return -1; }
void reset(size_t cap) { for (auto& x : F) x = File(); CAP = cap; n_epoll_wait = n_events_delivered = 0; on_stuck = default_stuck; }
int socketpair_(int sv[2]) { int a = alloc(SOCK); int b = alloc(SOCK); if (a < 0 || b < 0) return -1; f(a).peer = b; f(b).peer = a; sv[0] = a; sv[1] = b; return 0; }

bool readable(int fd) { File& s = f(fd); if (s.shut_rd) return true; if (!s.rx.empty()) return true; File& p = f(s.peer); return p.shut_wr || p.closed; }
bool writable(int fd) { File& s = f(fd); File& p = f(s.peer); if (p.closed) return true; return p.rx.size() < CAP; }     // AF_UNIX: send-buffer space only (a shutdown does not change it)
static bool hup(int fd) { File& s = f(fd); File& p = f(s.peer); return (p.closed || p.shut_wr) ; }

static uint32_t ready_mask(int fd, const Interest& in);
// edge-triggered interests re-arm when their direction becomes not-ready; evaluated after every state change
static void refresh_edges() {
    for (int e = 0; e < MAXFD; e++) if (F[e].kind == EPOLL) for (int i = 0; i < MAXFD; i++) {
        Interest& in = F[e].in[i]; if (!in.on || !(in.events & EPOLLET) || F[i].kind == FREE) continue;
        Interest all = in; all.events = EPOLLIN | EPOLLOUT;
        uint32_t m = ready_mask(FD0 + i, all);
        if (!(m & EPOLLIN)) in.et_reported_in = false;
        if (!(m & EPOLLOUT)) in.et_reported_out = false;
    }
}
struct EdgeGuard { ~EdgeGuard() { refresh_edges(); } };
static ssize_t do_send(int fd, const iovec* iov, int cnt) {
    EdgeGuard eg;
    File& s = f(fd); if (s.closed) { errno = EBADF; return -1; }
    File& p = f(s.peer);
    if (s.shut_wr || p.closed || p.shut_rd) { errno = EPIPE; return -1; }
    size_t total = 0; for (int i = 0; i < cnt; i++) total += iov[i].iov_len;
    if (total == 0) return 0;
    size_t space = CAP - std::min(CAP, p.rx.size());
    if (space == 0) { s.eagain_send++; errno = EAGAIN; return -1; }
    size_t k = std::min(total, space);
    if (env_short_io && k > 1 && pmc_choose(2, PMC_ENV, 1, "send: kernel takes only 1 byte")) k = 1;
    size_t left = k;
    for (int i = 0; i < cnt && left; i++) { size_t c = std::min(left, iov[i].iov_len); for (size_t j = 0; j < c; j++) p.rx.push_back(((unsigned char*)iov[i].iov_base)[j]); left -= c; }
    return k;
}
static ssize_t do_recv(int fd, const iovec* iov, int cnt) {
    EdgeGuard eg;
    File& s = f(fd); if (s.closed) { errno = EBADF; return -1; }
    size_t total = 0; for (int i = 0; i < cnt; i++) total += iov[i].iov_len;
    if (s.err && s.rx.empty()) { errno = s.err; s.err = 0; return -1; }      // queued data is delivered before the error
    if (s.shut_rd) return 0;
    if (s.rx.empty()) { File& p = f(s.peer); if (p.shut_wr || p.closed) return 0; s.eagain_recv++; errno = EAGAIN; return -1; }
    if (total == 0) return 0;
    size_t k = std::min(total, s.rx.size());
    if (env_short_io && k > 1 && pmc_choose(2, PMC_ENV, 1, "recv: kernel returns only 1 byte")) k = 1;
    size_t left = k;
    for (int i = 0; i < cnt && left; i++) { size_t c = std::min(left, iov[i].iov_len); for (size_t j = 0; j < c; j++) { ((unsigned char*)iov[i].iov_base)[j] = s.rx.front(); s.rx.pop_front(); } left -= c; }
    return k;
}

static uint32_t ready_mask(int fd, const Interest& in);
// what epoll_wait(ep) would report now: the event mask per registered descriptor (0 = nothing), edge-trigger bookkeeping applied
// (a direction that went not-ready re-arms its edge) but nothing consumed
static int pending(int ep, epoll_event* ready, int* idx) {
    int n = 0;
    for (int i = 0; i < MAXFD; i++) {
        Interest& in = f(ep).in[i]; if (!in.on || !in.armed || F[i].kind == FREE) continue;
        uint32_t m = ready_mask(FD0 + i, in);
        if (in.events & EPOLLET) {           // edge: report a direction once per not-ready -> ready transition
            if (!(m & EPOLLIN)) in.et_reported_in = false;
            if (!(m & EPOLLOUT)) in.et_reported_out = false;
            if ((m & EPOLLIN) && in.et_reported_in) m &= ~EPOLLIN;
            if ((m & EPOLLOUT) && in.et_reported_out) m &= ~EPOLLOUT;
            if (!(m & (EPOLLIN | EPOLLOUT | EPOLLERR | EPOLLHUP))) m = 0;      // RDHUP alone is level information riding on an edge
        }
        if (!m) continue;
        ready[n].events = m; ready[n].data.u64 = in.data; idx[n] = i; n++;
    }
    return n;
}
static uint32_t ready_mask(int fd, const Interest& in) {
    File& t = f(fd); uint32_t r = 0;
    if (t.kind == EPOLL) { epoll_event ready[MAXFD]; int idx[MAXFD]; if (pending(fd, ready, idx) > 0) r |= EPOLLIN; return r & (in.events | EPOLLERR | EPOLLHUP); }   // nested epoll
    if (t.kind == EVENTFD) { if (t.counter > 0) r |= EPOLLIN; return r & (in.events | EPOLLERR | EPOLLHUP); }
    if (t.kind != SOCK || t.closed) return 0;
    if (readable(fd)) r |= EPOLLIN;
    if (writable(fd)) r |= EPOLLOUT;
    if (t.err) r |= EPOLLERR | EPOLLIN;
    if (hup(fd)) r |= EPOLLRDHUP;
    File& p = f(t.peer); if ((p.closed || p.shut_wr) && t.shut_wr) r |= EPOLLHUP;
    return r & (in.events | EPOLLERR | EPOLLHUP);
}
}  // namespace simk

using namespace simk;
#define PASS(name, ...) syscall(SYS_##name, __VA_ARGS__)

extern "C" {
int socketpair(int d, int t, int p, int sv[2]) { (void)d; (void)t; (void)p; return socketpair_(sv); }
ssize_t send(int fd, const void* b, size_t n, int fl) { if (!owns(fd)) return PASS(sendto, fd, b, n, fl, 0, 0); iovec v{(void*)b, n}; return do_send(fd, &v, 1); }
ssize_t recv(int fd, void* b, size_t n, int fl) { if (!owns(fd)) return PASS(recvfrom, fd, b, n, fl, 0, 0); iovec v{b, n}; return do_recv(fd, &v, 1); }
ssize_t sendmsg(int fd, const msghdr* m, int fl) { if (!owns(fd)) return PASS(sendmsg, fd, m, fl); return do_send(fd, m->msg_iov, (int)m->msg_iovlen); }
ssize_t recvmsg(int fd, msghdr* m, int fl) { if (!owns(fd)) return PASS(recvmsg, fd, m, fl); return do_recv(fd, m->msg_iov, (int)m->msg_iovlen); }
ssize_t write(int fd, const void* b, size_t n) {
    if (!owns(fd)) return PASS(write, fd, b, n);
    if (f(fd).kind == EVENTFD) { if (n < 8) { errno = EINVAL; return -1; } uint64_t v; memcpy(&v, b, 8); f(fd).counter += v; return 8; }
    iovec v{(void*)b, n}; return do_send(fd, &v, 1);
}
ssize_t read(int fd, void* b, size_t n) {
    if (!owns(fd)) return PASS(read, fd, b, n);
    if (f(fd).kind == EVENTFD) { if (n < 8) { errno = EINVAL; return -1; } if (!f(fd).counter) { errno = EAGAIN; return -1; } memcpy(b, &f(fd).counter, 8); f(fd).counter = 0;
        for (auto& e : F) if (e.kind == EPOLL) e.in[fd - FD0].et_reported_in = false; return 8; }
    iovec v{b, n}; return do_recv(fd, &v, 1);
}
ssize_t writev(int fd, const iovec* iov, int cnt) { if (!owns(fd)) return PASS(writev, fd, iov, cnt); return do_send(fd, iov, cnt); }
ssize_t readv(int fd, const iovec* iov, int cnt) { if (!owns(fd)) return PASS(readv, fd, iov, cnt); return do_recv(fd, iov, cnt); }
int eventfd(unsigned int init, int flags) { (void)flags; int fd = alloc(EVENTFD); if (fd >= 0) f(fd).counter = init; return fd; }
int eventfd_write(int fd, eventfd_t v) { return write(fd, &v, 8) == 8 ? 0 : -1; }
int eventfd_read(int fd, eventfd_t* v) { return read(fd, v, 8) == 8 ? 0 : -1; }
int close(int fd) {
    if (!owns(fd)) return (int)PASS(close, fd);
    File& t = f(fd);
    if (t.kind == SOCK) { if (!t.rx.empty() && !f(t.peer).closed) f(t.peer).err = ECONNRESET;      // closing with unread data resets the peer
        t.closed = true; t.shut_rd = t.shut_wr = true; for (auto& e : F) if (e.kind == EPOLL) e.in[fd - FD0] = Interest(); if (f(t.peer).closed) { f(t.peer).kind = FREE; t.kind = FREE; } return 0; }
    t = File(); return 0;
}
int shutdown(int fd, int how) {
    if (!owns(fd)) return (int)PASS(shutdown, fd, how);
    EdgeGuard eg;
    File& t = f(fd); if (how == SHUT_RD || how == SHUT_RDWR) t.shut_rd = true; if (how == SHUT_WR || how == SHUT_RDWR) t.shut_wr = true; return 0;
}
int fcntl(int fd, int cmd, ...) {
    va_list ap; va_start(ap, cmd); long arg = va_arg(ap, long); va_end(ap);
    if (!owns(fd)) return (int)PASS(fcntl, fd, cmd, arg);
    if (cmd == F_GETFL) return O_RDWR | O_NONBLOCK; return 0;
}
int setsockopt(int fd, int l, int o, const void* v, socklen_t n) { if (!owns(fd)) return (int)PASS(setsockopt, fd, l, o, v, n); return 0; }
int getsockopt(int fd, int l, int o, void* v, socklen_t* n) { if (!owns(fd)) return (int)PASS(getsockopt, fd, l, o, v, n); if (v && n && *n >= 4) { memset(v, 0, *n); } return 0; }
int epoll_create(int) { return alloc(EPOLL); }
int epoll_create1(int) { return alloc(EPOLL); }
int epoll_ctl(int ep, int op, int fd, epoll_event* ev) {
    if (!owns(ep)) return (int)PASS(epoll_ctl, ep, op, fd, ev);
    if (!owns(fd)) { errno = EBADF; return -1; }
    Interest& in = f(ep).in[fd - FD0];
    if (op == EPOLL_CTL_ADD) { if (in.on) { errno = EEXIST; return -1; } in = Interest(); in.on = true; in.events = ev->events; in.data = ev->data.u64; in.armed = true; return 0; }
    if (op == EPOLL_CTL_MOD) { if (!in.on) { errno = ENOENT; return -1; } in.events = ev->events; in.data = ev->data.u64; in.armed = true; in.et_reported_in = in.et_reported_out = false; return 0; }
    if (op == EPOLL_CTL_DEL) { if (!in.on) { errno = ENOENT; return -1; } in = Interest(); return 0; }
    errno = EINVAL; return -1;
}
int epoll_wait(int ep, epoll_event* evs, int maxev, int timeout_ms) {
    if (!owns(ep)) return (int)PASS(epoll_wait, ep, evs, maxev, timeout_ms);
    n_epoll_wait++;
    for (int round = 0; round < 2; round++) {
        epoll_event ready[MAXFD]; int idx[MAXFD]; int n = pending(ep, ready, idx);
        if (n > 0) {
            int take = std::min(n, maxev);
            // environment deviations: the kernel may report fewer events than are ready, or in another order
            int first = 0;
            if (env_batch && n > 1) {
                int c = pmc_choose(3, PMC_ENV, 1, "epoll_wait: all ready events / only the first / only the last");
                if (c == 1) take = 1; else if (c == 2) { first = n - 1; take = 1; }
            }
            for (int k = 0; k < take; k++) {
                int j = first + k; evs[k] = ready[j]; Interest& in = f(ep).in[idx[j]];
                if (in.events & EPOLLONESHOT) in.armed = false;
                if (in.events & EPOLLET) { if (ready[j].events & EPOLLIN) in.et_reported_in = true; if (ready[j].events & EPOLLOUT) in.et_reported_out = true; }
                n_events_delivered++;
            }
            return take;
        }
        if (timeout_ms == 0) return 0;
        // nothing ready: on the single vCPU nothing can change except time
        uint64_t us = timeout_ms < 0 ? ~0ull : (uint64_t)timeout_ms * 1000;
        if (us >= 9ull * 1000 * 1000) { on_stuck("no descriptor ready, no timer pending"); return 0; }
        sv::advance_to(sv::vnow + us);
        return 0;
    }
    return 0;
}
int ioctl(int fd, unsigned long req, ...) { va_list ap; va_start(ap, req); void* arg = va_arg(ap, void*); va_end(ap); if (!owns(fd)) return (int)PASS(ioctl, fd, req, arg); return 0; }
}
