// C10 sock_sv: the real photon socket stream (KernelSocketStream: doio_once / doio_loop / BufStepV) over the real epoll master
// engine (add_interest / rm_interest / one-shot re-arming / 16-event batches), on top of a simulated kernel (simk) with tiny
// socket buffers: EAGAIN on both sides, short transfers, truncated / reordered epoll batches are explorer ENV choices.
#include "sv_rt.h"
#include "simk.h"
#include <net/kernel_socket.cpp>        // unity include: gives access to KernelSocketStream
#include <photon/thread/thread11.h>
#include <photon/io/fd-events.h>
#include <algorithm>
#include <string>
#include <vector>
using namespace photon;
using namespace photon::net;

static const uint64_t TMO = 50;
struct Conn {
    int fd[2]; KernelSocketStream* s[2];
    std::string sent[2], got[2];         // bytes accepted by the writer on end e / received by the reader on end e
    bool writer_done[2] = {false, false}, reader_done[2] = {false, false};
};
struct World {
    std::vector<Conn> conns; size_t cap; std::string log;
    int L = 0; char wkind = 'w', rkind = 'r'; bool timeout = false, duplex = false, two = false, et = false; int shut_at = -1; bool all_done = false;
    int blocked_readers = 0, blocked_writers = 0;
};
static World* W;

static std::string payload(int conn, int dir, int L) { std::string p; for (int i = 0; i < L; i++) p += char('a' + (i * 7 + conn * 3 + dir * 11) % 26); return p; }

static void writer(int ci, int e) {
    Conn& c = W->conns[ci]; KernelSocketStream* s = c.s[e];
    std::string data = payload(ci, e, W->L);
    int limit = (W->shut_at >= 0 && e == 0) ? std::min(W->shut_at, W->L) : W->L;
    size_t off = 0;
    auto note = [&](ssize_t r, size_t asked, const char* what) {
        if (r > (ssize_t)asked) pmc_violation("transfer-more-than-asked", "%s returned %zd for %zu bytes", what, r, asked);
        if (r > 0) { c.sent[e] += data.substr(off, r); off += r; }
    };
    if (W->timeout && e == 0) {                 // timeout scenario: first half now, second half after the reader's deadline
        int h = limit / 2;
        ssize_t r = s->write(data.data(), h); note(r, h, "write"); if (r != h) pmc_violation("write-short", "write(%d) returned %zd errno %d", h, r, errno);
        thread_usleep(80);
        r = s->write(data.data() + h, limit - h); note(r, limit - h, "write"); if (r != limit - h) pmc_violation("write-short", "write(%d) returned %zd errno %d", limit - h, r, errno);
    } else
    if (W->wkind == 'w') {                      // one write() of everything: must transfer the full count (nobody closes)
        ssize_t r = s->write(data.data(), limit); note(r, limit, "write");
        if (r != limit && !(r < 0 && W->timeout)) pmc_violation("write-short", "write(%d) returned %zd errno %d", limit, r, errno);
    } else if (W->wkind == 's') {               // send() loop: each call transfers 1..n bytes
        int guard = 0;
        while ((int)off < limit) {
            size_t asked = limit - off; ssize_t r = s->send(data.data() + off, asked);
            if (r <= 0) pmc_violation("send-nonpositive", "send(%zu) returned %zd errno %d", asked, r, errno);
            note(r, asked, "send"); if (++guard > 64) pmc_violation("send-loop-endless", "more than 64 send calls");
        }
    } else {                                    // writev with a PROG-chosen segmentation incl. zero-length pieces
        int seg = pmc_choose(5, PMC_PROG, 0, "writev segmentation");
        std::vector<iovec> v; char* b = (char*)data.data();
        int a = limit / 2;
        switch (seg) {
            case 0: v = {{b, (size_t)limit}}; break;
            case 1: v = {{b, (size_t)a}, {b + a, (size_t)(limit - a)}}; break;
            case 2: v = {{b, 0}, {b, (size_t)a}, {b + a, 0}, {b + a, (size_t)(limit - a)}}; break;
            case 3: v = {{b, (size_t)std::min(1, limit)}, {b + std::min(1, limit), (size_t)(limit - std::min(1, limit))}, {b + limit, 0}}; break;
            default: v = {{b, 0}, {b, 0}, {b, (size_t)limit}}; break;
        }
        ssize_t r = s->writev(v.data(), v.size()); note(r, limit, "writev");
        if (r != limit && !(r < 0 && W->timeout)) pmc_violation("writev-short", "writev of %d bytes (segmentation %d) returned %zd errno %d", limit, seg, r, errno);
    }
    if (W->shut_at >= 0 && e == 0) s->shutdown(ShutdownHow::Write);
    c.writer_done[e] = true; W->log += 'W';
}

static void reader(int ci, int e) {            // reads on end e what the writer on end 1-e sent
    Conn& c = W->conns[ci]; KernelSocketStream* s = c.s[e];
    int expect = (W->shut_at >= 0 && e == 1) ? std::min(W->shut_at, W->L) : W->L;
    int n = 1; if (W->conns.size() <= 2) { int k = pmc_choose(4, PMC_PROG, 0, "reader buffer size"); n = k == 0 ? std::max(1, W->L + 1) : k == 1 ? 1 : k == 2 ? 2 : (int)W->cap; }
    bool timed = W->timeout && e == 1;          // (epoll_wait has 1 ms granularity: a 50 us timeout may take up to ~1 ms) only this reader has a stream timeout; every other waiter must be unaffected by it
    if (timed) s->timeout(TMO);
    int guard = 0; int timeouts = 0;
    while ((int)c.got[e].size() < expect || (W->shut_at >= 0 && e == 1)) {
        std::vector<char> buf(n); char* pb = buf.data();                 // exact-size heap block
        size_t want = (W->rkind != 'c') ? std::min<size_t>(n, std::max(1, expect - (int)c.got[e].size())) : n;    // read/readv are "read fully"
        uint64_t t0 = sv::vnow; if (timed) sv::register_deadline(t0 + TMO);
        errno = 0; ssize_t r;
        if (W->rkind == 'r') r = s->read(pb, want);
        else if (W->rkind == 'c') r = s->recv(pb, want);
        else { size_t h = want / 2; iovec v[3] = {{pb, h}, {pb + h, 0}, {pb + h, want - h}}; r = s->readv(v, 3); }
        int en = errno;
        if (r > (ssize_t)want) pmc_violation("transfer-more-than-asked", "read/recv returned %zd for %zu bytes", r, want);
        if (r < 0) {
            if (timed && en == ETIMEDOUT) {
                if (sv::vnow < t0 + TMO) pmc_violation("timeout-before-deadline", "ETIMEDOUT after %llu us (deadline %llu)", (unsigned long long)(sv::vnow - t0), (unsigned long long)TMO);
                if (sv::vnow > t0 + TMO + 1100) pmc_violation("hang-past-timeout", "recv returned ETIMEDOUT only after %llu us (timeout %llu)", (unsigned long long)(sv::vnow - t0), (unsigned long long)TMO);
                if (simk::readable(c.fd[e]) && simk::F[c.fd[e] - simk::FD0].rx.size() > 0 && sv::vnow - t0 < TMO) pmc_violation("timeout-with-data", "timed out although data was readable");
                W->log += 't'; if (++timeouts > 8) pmc_violation("timeout-loop", "more than 8 timeouts");
                continue;               // a timed-out recv consumed nothing: keep reading
            }
            pmc_violation("read-error", "read/recv returned -1 errno %d", en);
        }
        if (r == 0) { if (!(W->shut_at >= 0)) pmc_violation("eof-without-close", "reader saw EOF but nobody closed"); W->log += 'e'; break; }
        if (W->rkind != 'c' && (size_t)r != want && !(W->shut_at >= 0)) pmc_violation("read-short", "read(%zu) returned %zd without EOF/timeout", want, r);
        c.got[e].append(pb, r);
        // exactly-once, in-order: what we have must be a prefix of what the writer was given
        std::string all = payload(ci, 1 - e, W->L);
        if (c.got[e] != all.substr(0, c.got[e].size())) pmc_violation("bytes-corrupted", "reader got \"%s\", writer stream is \"%s\"", c.got[e].c_str(), all.c_str());
        if (++guard > 128) pmc_violation("read-loop-endless", "more than 128 read calls");
    }
    c.reader_done[e] = true; W->log += 'R'; W->log += std::to_string(n); W->log += '/'; W->log += std::to_string(guard);
}

static void stuck(const char* why) {
    // every photon thread is blocked and no descriptor is ready per the simulated kernel. Is anybody waiting although its fd IS ready?
    std::string s;
    for (size_t i = 0; i < W->conns.size(); i++) for (int e = 0; e < 2; e++) {
        Conn& c = W->conns[i];
        bool rwait = !c.reader_done[e] && (W->duplex || e == 1), wwait = !c.writer_done[e] && (W->duplex || e == 0);
        s += (rwait ? 'r' : '-'); s += (wwait ? 'w' : '-');
        if (rwait && simk::readable(c.fd[e]) && (W->duplex || e == 1)) pmc_violation("lost-read-event", "reader on connection %zu end %d is blocked although its descriptor is readable (%s)", i, e, why);
        if (wwait && simk::writable(c.fd[e]) && (W->duplex || e == 0)) pmc_violation("lost-write-event", "writer on connection %zu end %d is blocked although its descriptor is writable (%s)", i, e, why);
    }
    pmc_violation("deadlock", "all threads blocked (%s): %s", s.c_str(), why);
}

// config "cap<C>:<w|s|v><L>:<r|c|x>[:t][:d][:2][:n<k>][:h<k>][:et]"   :et = edge-triggered streams (ETKernelSocketStream over the thread-local ETPoller:
// a second epoll nested in the master engine, polled by an event loop thread every 1 ms, so the run never goes quiescent: a watchdog judges)
void pmc_run(const char* config) {
    World w; W = &w;
    int cap, L; char wk, rk; char rest[32] = "";
    if (sscanf(config, "cap%d:%c%d:%c%31s", &cap, &wk, &L, &rk, rest) < 4) pmc_broken("bad config %s", config);
    w.cap = cap; w.L = L; w.wkind = wk; w.rkind = rk;
    w.et = strstr(rest, ":et"); if (w.et) *strstr(rest, ":et") = 0;
    bool ng = strstr(rest, ":ng"); if (ng) *strstr(rest, ":ng") = 0;     // :ng = the epoll-ng master engine (one epoll per direction, nested in an engine epoll)
    w.timeout = strstr(rest, ":t"); w.duplex = strstr(rest, ":d"); w.two = strstr(rest, ":2");
    if (const char* h = strstr(rest, ":h")) w.shut_at = atoi(h + 2);
    int many = 0; if (const char* m = strstr(rest, ":n")) many = atoi(m + 2);      // :n<k> = k connections on one engine (more than one 16-event batch)
    pmc_window(0);
    simk::reset(cap);
    simk::on_stuck = stuck;
    sv::init();
    reset_master_event_engine_default();
    fd_events_init(ng ? new_epoll_ng_master_engine() : new_epoll_master_engine());          // the REAL engine, on simulated epoll
    int nconn = many ? many : w.two ? 2 : 1; w.conns.resize(nconn);
    if (w.et) et_poller_init();
    for (auto& c : w.conns) { socketpair(AF_UNIX, SOCK_STREAM, 0, c.fd); for (int e = 0; e < 2; e++) c.s[e] = w.et ? new ETKernelSocketStream(c.fd[e]) : new KernelSocketStream(c.fd[e]); }
    pmc_window(1);
    std::vector<join_handle*> jh;
    // the ET poller's 1 ms polling keeps the vCPU from ever going idle for good: virtual time only moves when every thread is blocked, so
    // reaching +30 ms with the transfer unfinished means everybody has been blocked on descriptors for 30 polling rounds
    if (w.et) thread_create11(64 * 1024, [] { World* me = W; thread_usleep(30 * 1000); if (W == me && !me->all_done) stuck("edge-triggered streams: no progress for 30 ms of virtual time"); });
    for (int ci = 0; ci < nconn; ci++) {
        // reader first: it hits EAGAIN and registers interest before any byte exists
        jh.push_back(thread_enable_join(thread_create11(64 * 1024, reader, ci, 1)));
        jh.push_back(thread_enable_join(thread_create11(64 * 1024, writer, ci, 0)));
        if (w.duplex) { jh.push_back(thread_enable_join(thread_create11(64 * 1024, reader, ci, 0))); jh.push_back(thread_enable_join(thread_create11(64 * 1024, writer, ci, 1))); }
    }
    for (auto h : jh) thread_join(h);
    w.all_done = true;
    pmc_window(0);
    for (auto& c : w.conns) for (int e = 0; e < 2; e++) {
        if (c.got[e] != c.sent[1 - e]) pmc_violation("bytes-lost-or-duplicated", "end %d received \"%s\" but the peer's writer was credited \"%s\"", e, c.got[e].c_str(), c.sent[1 - e].c_str());
    }
    uint64_t ea = 0; for (auto& c : w.conns) for (int e = 0; e < 2; e++) ea += simk::F[c.fd[e] - simk::FD0].eagain_send * 100 + simk::F[c.fd[e] - simk::FD0].eagain_recv;
    pmc_obs("%s ew=%llu ev=%llu eagain=%llu", w.log.c_str(), (unsigned long long)simk::n_epoll_wait, (unsigned long long)simk::n_events_delivered, (unsigned long long)ea);
    for (auto& c : w.conns) for (int e = 0; e < 2; e++) delete c.s[e];
    if (w.et) { et_poller_fini(); thread_usleep(40 * 1000); }      // let the watchdog thread end before the vCPU goes away
    sv::fini();
    W = nullptr;
}

static const PmcConfig CFG[] = {
    {"cap2:w5:r",      3, {0,0}, {0,0}, {2,3}, {0,0}, "one write of 5 bytes through a 2-byte buffer, read() with every buffer size"},
    {"cap2:s5:c",      3, {0,0}, {0,0}, {2,3}, {0,0}, "send/recv loops"},
    {"cap2:v6:x",      3, {0,0}, {0,0}, {2,3}, {0,0}, "writev segmentations incl. zero-length pieces, readv"},
    {"cap3:v7:r",      3, {0,0}, {0,0}, {2,3}, {0,0}, ""},
    {"cap2:w0:r",      3, {0,0}, {0,0}, {1,1}, {0,0}, "empty message"},
    {"cap2:w4:r:d",    3, {0,0}, {0,0}, {2,2}, {0,0}, "full duplex: both directions of each fd awaited at once (one-shot re-arming)"},
    {"cap2:s3:c:2",    3, {0,0}, {0,0}, {2,2}, {0,0}, "two connections sharing the engine: event batches truncated / reordered"},
    {"cap2:w4:c:t",    3, {0,0}, {1,1}, {2,2}, {2,3}, "stream timeout fires while the second half is still to come; nothing is lost"},
    {"cap2:w4:c:t:d",  3, {0,0}, {1,1}, {1,2}, {2,2}, "... with the other direction of the same descriptors busy: the timeout must not disturb it"},
    {"cap2:w5:r:h3",   3, {0,0}, {0,0}, {2,3}, {0,0}, "peer shuts down after 3 of 5 bytes: read returns the bytes so far, then EOF"},
    {"cap2:w5:r:et",   3, {0,0}, {0,0}, {2,3}, {0,0}, "edge-triggered stream: every wait depends on an edge reported by the nested poller"},
    {"cap2:s4:c:d:et", 3, {0,0}, {0,0}, {1,2}, {0,0}, "edge-triggered, both directions of each descriptor awaited at once"},
    {"cap2:v6:x:2:et", 3, {0,0}, {0,0}, {1,2}, {0,0}, "edge-triggered, two connections in one poller"},
    {"cap2:w5:r:h3:et",3, {0,0}, {0,0}, {1,2}, {0,0}, "edge-triggered, peer shutdown (EOF edge)"},
    {"cap2:w5:r:ng",   3, {0,0}, {0,0}, {2,3}, {0,0}, "epoll-ng master engine: per-direction pollers nested in an engine epoll"},
    {"cap2:s4:c:d:ng", 3, {0,0}, {0,0}, {2,2}, {0,0}, "epoll-ng, full duplex: the same descriptor registered in the read and the write poller at once"},
    {"cap2:s3:c:2:ng", 3, {0,0}, {0,0}, {2,2}, {0,0}, "epoll-ng, two connections"},
    {"cap2:w4:c:t:d:ng",3,{0,0}, {1,1}, {1,2}, {2,2}, "epoll-ng, stream timeout on one reader with the other direction busy"},
    {"cap2:w5:r:h3:ng",3, {0,0}, {0,0}, {2,3}, {0,0}, "epoll-ng, peer shutdown (RDHUP on the read poller)"},
    {"cap2:w1:r:n17",  3, {0,0}, {0,0}, {1,2}, {0,0}, "17 connections become readable together: more than one 16-event batch of the engine"},
    {"cap2:s2:c:d:n9", 3, {0,0}, {0,0}, {1,1}, {0,0}, "9 full-duplex connections: 18+ events at once"},
    {"cap2:w1:r:n17:et",2,{0,0}, {0,0}, {1,1}, {0,0}, ""},
    {"cap2:w4:c:d:2",  2, {0,0}, {0,0}, {2,3}, {0,0}, ""},
    {"cap4:v9:x:d",    2, {0,0}, {0,0}, {2,3}, {0,0}, ""},
};
const PmcConfig* pmc_configs(int* n) { *n = sizeof CFG / sizeof CFG[0]; return CFG; }
const char* pmc_property(void) { return "C10"; }
const char* pmc_target(void) { return "sock_sv"; }
int main(int argc, char** argv) { return pmc_main(argc, argv); }
