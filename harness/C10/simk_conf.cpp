// C10 simk_conf: conformance of the simulated kernel (simk) against the REAL kernel.
// Every sequence of up to DEPTH abstract operations over one connected stream pair (ends a, b), one epoll instance and a nested
// epoll instance is executed twice in this process: on simk (through the libc names that simk.cpp shadows at link level) and on the
// real kernel (through raw syscalls), and the two transcripts are compared step by step. This binds the model that C10's exploration
// rests on to the thing it models, exhaustively up to the depth (the guidance's "replay model traces against the implementation",
// here: against reality, since the model stands for the environment and not for the code under test).
//
// Abstract operations (chosen so that buffer sizes do not matter): fill x = send until EAGAIN; drain x = recv until EAGAIN/EOF;
// send1 / recv1 one byte; shutdown(x, WR); close b; epoll_ctl ADD/MOD/DEL of end a with masks; epoll_wait(timeout 0).
// Compared: return codes, errno, event masks. Level-triggered and one-shot interests must agree exactly. For edge-triggered
// interests simk reports the documented minimum (once per not-ready -> ready transition), the real kernel may report more: there the
// check is  simk events  subset of  real events.
#include "seqx.h"
#include "simk.h"
#include "sv_rt.h"
#include <sys/socket.h>
#include <sys/epoll.h>
#include <string>
#include <vector>

// ---- what simk.cpp needs from the explorer / sv runtime (not used here: no deviations, no blocking waits)
extern "C" int pmc_choose(int, int, int, const char*) { return 0; }
extern "C" void pmc_violation(const char* sig, const char* fmt, ...) { fprintf(stderr, "simk called pmc_violation(%s, %s)\n", sig, fmt); abort(); }
namespace sv { uint64_t vnow = 1000000000ull; void advance_to(uint64_t t) { if (t > vnow) vnow = t; } }

enum Op { FILL_A, FILL_B, DRAIN_A, DRAIN_B, SEND1_A, SEND1_B, RECV1_A, RECV1_B, SHUTWR_A, SHUTWR_B, CLOSE_B,
          ADD_LT, ADD_ONESHOT, ADD_ET, MOD_IN, MOD_ONESHOT_INOUT, DEL, WAIT, ADD_NESTED, WAIT_OUTER, NOPS };
static const char* OPNAME[NOPS] = {"fill(a)", "fill(b)", "drain(a)", "drain(b)", "send1(a)", "send1(b)", "recv1(a)", "recv1(b)", "shut_wr(a)", "shut_wr(b)", "close(b)",
          "ctl(ADD,a,IN|OUT|RDHUP)", "ctl(ADD,a,IN|OUT|RDHUP|ONESHOT)", "ctl(ADD,a,IN|OUT|RDHUP|ET)", "ctl(MOD,a,IN)", "ctl(MOD,a,IN|OUT|ONESHOT)", "ctl(DEL,a)", "wait(ep)",
          "ctl(outer,ADD,ep,IN)", "wait(outer)"};

// one world = either simk or the real kernel
struct World {
    bool real; int a = -1, b = -1, ep = -1, outer = -1; bool b_closed = false;
    long sys_send(int fd, const void* p, size_t n) { return real ? syscall(SYS_sendto, fd, p, n, MSG_NOSIGNAL | MSG_DONTWAIT, 0, 0) : ::send(fd, p, n, MSG_NOSIGNAL); }
    long sys_recv(int fd, void* p, size_t n) { return real ? syscall(SYS_recvfrom, fd, p, n, MSG_DONTWAIT, 0, 0) : ::recv(fd, p, n, 0); }
    int sys_ctl(int e, int op, int fd, epoll_event* ev) { return real ? (int)syscall(SYS_epoll_ctl, e, op, fd, ev) : ::epoll_ctl(e, op, fd, ev); }
    int sys_wait(int e, epoll_event* evs, int n) { return real ? (int)syscall(SYS_epoll_wait, e, evs, n, 0) : ::epoll_wait(e, evs, n, 0); }
    void open() {
        int sv_[2];
        if (real) { if (syscall(SYS_socketpair, AF_UNIX, SOCK_STREAM | SOCK_NONBLOCK, 0, sv_) != 0) abort(); ep = (int)syscall(SYS_epoll_create1, 0); outer = (int)syscall(SYS_epoll_create1, 0); }
        else { simk::reset(64);      /* capacity is abstracted away: only fill() reaches it, in both worlds */ simk::env_short_io = false; simk::env_batch = false; if (::socketpair(AF_UNIX, SOCK_STREAM, 0, sv_) != 0) abort(); ep = ::epoll_create(1); outer = ::epoll_create(1); }
        a = sv_[0]; b = sv_[1];
    }
    void shut() {
        if (real) { syscall(SYS_close, a); if (!b_closed) syscall(SYS_close, b); syscall(SYS_close, ep); syscall(SYS_close, outer); }
        else { ::close(a); if (!b_closed) ::close(b); ::close(ep); ::close(outer); }
    }
    static std::string rc(long r) { char bf[48]; if (r < 0) snprintf(bf, sizeof bf, "-1/%s", errno == EAGAIN ? "EAGAIN" : errno == EPIPE ? "EPIPE" : errno == EEXIST ? "EEXIST" : errno == ENOENT ? "ENOENT" : errno == EBADF ? "EBADF" : errno == ECONNRESET ? "ECONNRESET" : "E?"); else snprintf(bf, sizeof bf, "%ld", r); return bf; }
    static std::string mask(uint32_t m) { std::string s; if (m & EPOLLIN) s += "I"; if (m & EPOLLOUT) s += "O"; if (m & EPOLLRDHUP) s += "R"; if (m & EPOLLHUP) s += "H"; if (m & EPOLLERR) s += "E"; return s.empty() ? "-" : s; }
    // returns the transcript of one op; `events` receives the event mask reported for end a (0 if none) for the subset rule
    std::string run(int op, uint32_t* events, bool* is_wait) {
        *events = 0; *is_wait = false; char c = 'x'; char buf[64];
        int x = (op == FILL_A || op == DRAIN_A || op == SEND1_A || op == RECV1_A || op == SHUTWR_A) ? a : b;
        bool on_b = x == b;
        if (on_b && b_closed && op != CLOSE_B) return "skipped(b closed)";
        switch (op) {
            case FILL_A: case FILL_B: { long r; int n = 0; std::vector<char> big(real ? 65536 : 1, 'f'); while ((r = sys_send(x, big.data(), big.size())) > 0 && ++n < 100000) {} return "fill:" + rc(r); }
            case DRAIN_A: case DRAIN_B: { long r; int n = 0; std::vector<char> big(real ? 65536 : 1); while ((r = sys_recv(x, big.data(), big.size())) > 0 && ++n < 100000) {} return "drain:" + rc(r); }
            case SEND1_A: case SEND1_B: return "send1:" + rc(sys_send(x, &c, 1));
            case RECV1_A: case RECV1_B: return "recv1:" + rc(sys_recv(x, buf, 1));
            case SHUTWR_A: case SHUTWR_B: return "shut:" + rc(real ? syscall(SYS_shutdown, x, SHUT_WR) : ::shutdown(x, SHUT_WR));
            case CLOSE_B: { if (b_closed) return "skipped(b closed)"; b_closed = true; return "close:" + rc(real ? syscall(SYS_close, b) : ::close(b)); }
            case ADD_LT: case ADD_ONESHOT: case ADD_ET: case MOD_IN: case MOD_ONESHOT_INOUT: case DEL: {
                epoll_event ev; memset(&ev, 0, sizeof ev); ev.data.u64 = 7;
                ev.events = op == ADD_LT ? (EPOLLIN | EPOLLOUT | EPOLLRDHUP) : op == ADD_ONESHOT ? (EPOLLIN | EPOLLOUT | EPOLLRDHUP | EPOLLONESHOT)
                          : op == ADD_ET ? (EPOLLIN | EPOLLOUT | EPOLLRDHUP | EPOLLET) : op == MOD_IN ? EPOLLIN : (EPOLLIN | EPOLLOUT | EPOLLONESHOT);
                int o = (op == ADD_LT || op == ADD_ONESHOT || op == ADD_ET) ? EPOLL_CTL_ADD : op == DEL ? EPOLL_CTL_DEL : EPOLL_CTL_MOD;
                return "ctl:" + rc(sys_ctl(ep, o, a, &ev));
            }
            case ADD_NESTED: { epoll_event ev; memset(&ev, 0, sizeof ev); ev.events = EPOLLIN; ev.data.u64 = 9; return "ctl:" + rc(sys_ctl(outer, EPOLL_CTL_ADD, ep, &ev)); }
            case WAIT: case WAIT_OUTER: {
                epoll_event evs[4]; int n = sys_wait(op == WAIT ? ep : outer, evs, 4);
                *is_wait = true; if (n > 0) *events = evs[0].events;
                return std::string("wait:") + (n < 0 ? rc(n) : n == 0 ? "none" : mask(evs[0].events));
            }
        }
        return "?";
    }
};

static void seqx_enumerate(seqx::Ctx& c, bool thorough) {
    const int DEPTH = thorough ? 5 : 4;
    // the alphabet is ordered simplest-first; sequences are enumerated by length, then lexicographically
    std::vector<int> seq;
    for (int len = 1; len <= DEPTH; len++) {
        seq.assign(len, 0);
        for (;;) {
            // cheap filters (outside begin): a sequence without any wait compares nothing new beyond its prefixes' return codes; keep them anyway
            // for len <= 3, drop them for longer ones
            bool has_wait = false; for (int o : seq) if (o == WAIT || o == WAIT_OUTER) has_wait = true;
            if (has_wait || len <= 3) {
                std::string d; for (int o : seq) { d += OPNAME[o]; d += "; "; }
                if (c.begin("%s", d.c_str())) {
                    World sim, real; sim.real = false; real.real = true; sim.open(); real.open();
                    bool et = false; uint64_t h = 0;
                    // after a partial drain of a full buffer, whether the writer side has room again is the kernel's choice (AF_UNIX frees whole
                    // skbs, a byte-granular stream frees bytes; simk is byte-granular): send results and OUT readiness of that side are not compared
                    // until the reader drained completely
                    bool fuzzy_a = false, fuzzy_b = false;      // fuzzy_a: writability of a is unspecified
                    for (size_t i = 0; i < seq.size(); i++) {
                        if (seq[i] == ADD_ET) et = true;
                        uint32_t es, er; bool w1, w2;
                        errno = 0; std::string ts = sim.run(seq[i], &es, &w1);
                        errno = 0; std::string tr = real.run(seq[i], &er, &w2);
                        h = seqx::mix(h, seqx::fnv(ts.data(), ts.size()));
                        bool same = ts == tr;
                        int op = seq[i];
                        if (op == RECV1_B && simk::owns(sim.b) && !simk::F[sim.b - simk::FD0].rx.empty()) fuzzy_a = true;
                        if (op == RECV1_A && !simk::F[sim.a - simk::FD0].rx.empty()) fuzzy_b = true;
                        if (op == DRAIN_B) fuzzy_a = false; if (op == DRAIN_A) fuzzy_b = false;
                        if (!same && fuzzy_a && (op == SEND1_A || op == FILL_A)) same = true;
                        if (!same && fuzzy_b && (op == SEND1_B || op == FILL_B)) same = true;
                        if (!same && fuzzy_a && w1 && (((es ^ er) & ~EPOLLOUT) == 0 || op == WAIT_OUTER)) same = true;
                        if (fuzzy_a && (op == SEND1_A || op == FILL_A) && ts != tr) { c.cls(h); break; }      // the two worlds' buffers differ from here on
                        // edge-triggered interests: simk reports the guaranteed minimum, the real kernel may repeat an edge
                        if (!same && et && w1 && (es & ~er & (EPOLLIN | EPOLLOUT)) == 0 && (es || !(er & ~(EPOLLIN | EPOLLOUT | EPOLLRDHUP | EPOLLHUP)))) same = true;
                        if (!same) { char sg[96]; snprintf(sg, sizeof sg, "simk-differs-from-kernel:%s", OPNAME[seq[i]]); c.fail(sg, "step %zu (%s): simk says %s, the kernel says %s", i, OPNAME[seq[i]], ts.c_str(), tr.c_str()); break; }
                    }
                    c.cls(h);
                    sim.shut(); real.shut();
                }
            }
            int k = len - 1; while (k >= 0 && ++seq[k] == NOPS) { seq[k] = 0; k--; }
            if (k < 0) break;
        }
    }
}
SEQX_MAIN("C10", "simk_conf", "every sequence of <= 4 (quick) / 5 (thorough) abstract socket / epoll operations (20-op alphabet) executed on simk and on the real kernel; distinct = distinct simk transcripts")
