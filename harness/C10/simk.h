// simk.h -- a small simulated kernel for C10: connected stream socket pairs with tiny buffers, epoll (level / one-shot /
// edge flags), eventfd. Defined at link level in the harness binary (the definitions below shadow libc's), single vCPU:
// every call is one atomic step. Environment deviations (1-byte transfers, truncated / reordered event batches) are
// explorer ENV choices. Descriptors owned by simk are >= SIMK_FD0; everything else goes to the real kernel.
#pragma once
#include <stdint.h>
#include <stddef.h>
#include <sys/epoll.h>
#include <string>
#include <vector>
#include <deque>

namespace simk {
enum { FD0 = 1000, MAXFD = 64 };
enum Kind { FREE = 0, SOCK, EPOLL, EVENTFD };
struct Interest { bool on = false; uint32_t events = 0; uint64_t data = 0; bool armed = false; bool et_reported_in = false, et_reported_out = false; };
struct File {
    Kind kind = FREE;
    // SOCK
    int peer = -1; std::deque<unsigned char> rx;   // bytes waiting to be read on this end
    bool shut_rd = false, shut_wr = false, closed = false;
    int err = 0;                       // pending socket error (ECONNRESET: the peer closed with unread data), reported once
    // EPOLL
    Interest in[MAXFD];
    // EVENTFD
    uint64_t counter = 0;
    // statistics
    uint64_t eagain_send = 0, eagain_recv = 0;
};
extern File F[MAXFD];
extern size_t CAP;                 // capacity of each direction of a pair (bytes)
extern bool env_short_io;          // offer "transfer only 1 byte" deviations
extern bool env_batch;             // offer event batch deviations
void reset(size_t cap);
int socketpair_(int sv[2]);        // two connected non-blocking stream ends
bool readable(int fd);             // per simk state: a recv would not return EAGAIN
bool writable(int fd);
bool owns(int fd);
extern void (*on_stuck)(const char* why);   // epoll_wait found nothing and would block forever
extern uint64_t n_epoll_wait, n_events_delivered;
}
