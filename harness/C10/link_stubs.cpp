// link-only: zerocopy probing (net/utils.cpp pulls in the DNS resolver etc.); never called by the scenarios
namespace photon { namespace net { bool zerocopy_available() { return false; } } }
