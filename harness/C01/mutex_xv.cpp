// C01 mutex_xv: photon mutex / recursive_mutex under the controlled multi-vCPU scheduler.
// Every interleaving (up to the preemption bound) of the vCPU OS threads at every atomic / volatile operation
// of the real code, timeouts landing anywhere (TIME deviations), interrupts from another thread.
#define protected public
#define private public
#include <photon/thread/thread.h>
#undef protected
#undef private
#include <photon/thread/thread11.h>
#include "mv_prog.h"
#include <atomic>
#include <vector>
#include <string>
#include <string.h>

using namespace photon;

static const uint64_t TMO = 40;
struct PT {                 // one photon thread of the program
    std::string ops; int vcpu, idx;
    thread* th = nullptr; std::string result; bool finished = false;
};
struct State {
    mutex* m = nullptr; recursive_mutex* rm = nullptr; bool recursive = false;
    std::vector<PT> pts; int nvcpu = 0;
    int inside = 0, acquires = 0, releases = 0;
    std::atomic<int> go{0}; std::atomic<int> finished{0}; std::atomic<int> ready{0};
    int interrupts_sent[16] = {0};
    std::string order;
};
static State* G;

static void enter_cs(PT& p) {
    if (++G->inside != 1) pmc_violation("mutual-exclusion", "thread %d entered the critical section while %d other(s) inside", p.idx, G->inside - 1);
    G->acquires++; G->order += char('0' + p.idx);
    thread* o = G->recursive ? G->rm->owner.load() : G->m->owner.load();
    if (o != CURRENT) pmc_violation("owner-mismatch", "lock() returned 0 to thread %d but the mutex owner field is %s", p.idx, o ? "another thread" : "null");
}
static void leave_cs(PT& p) {
    if (G->inside != 1) pmc_violation("mutual-exclusion", "inside=%d at leave", G->inside);
    G->inside--; G->releases++;
}

static int do_lock(char op) {
    if (G->recursive) {
        switch (op) { case 'L': return G->rm->lock(); case 'T': mv_register_deadline(mv_now() + TMO); return G->rm->lock(TMO); case 'Z': return G->rm->lock(Timeout(0)); default: return G->rm->try_lock(); }
    }
    switch (op) { case 'L': return G->m->lock(); case 'T': mv_register_deadline(mv_now() + TMO); return G->m->lock(TMO); case 'Z': return G->m->lock(Timeout(0)); default: return G->m->try_lock(); }
}
static void do_unlock() { if (G->recursive) G->rm->unlock(); else G->m->unlock(); }

static void run_pt(int k) {
    PT& p = G->pts[k];
    const std::string& ops = p.ops;
    for (size_t i = 0; i < ops.size(); i++) {
        char op = ops[i];
        if (op == 'i') {            // interrupt thread <digit> with EINTR
            int tgt = ops[++i] - '0';
            if (tgt < (int)G->pts.size() && G->pts[tgt].th && !G->pts[tgt].finished) { G->interrupts_sent[tgt]++; thread_interrupt(G->pts[tgt].th, EINTR); }
            p.result += "i";
            continue;
        }
        if (op == 'y') { thread_yield(); continue; }
        if (op == 'p') { int n = pmc_choose(3, PMC_PROG, 0, "pad yields"); for (int k = 0; k < n; k++) thread_yield(); continue; }   // every arrival order on one vCPU
        if (op == 'q') { if (pmc_choose(2, PMC_PROG, 0, "pad yield")) thread_yield(); continue; }
        bool nested = (op == 'N');          // recursive: lock twice
        bool hold = (op == 'H');            // lock, keep it across a 10 us sleep (the vCPU goes idle: waiters on other vCPUs queue up by default), unlock
        uint64_t t_start = mv_now(); int intr0 = G->interrupts_sent[k];
        errno = 0;
        int r = do_lock(nested || hold ? 'L' : op);
        int e = errno;
        if (r == 0) {
            enter_cs(p);
            if (nested) { int r2 = do_lock('L'); if (r2 != 0) pmc_violation("recursive-relock-failed", "owner could not re-lock"); }
            mv_yield("in critical section");
            if (hold) { mv_register_deadline(mv_now() + 10); thread_usleep(10); }
            if (G->pts.size() > (size_t)G->nvcpu) thread_yield();   // let same-vCPU threads run while we hold the lock
            mv_yield("in critical section 2");
            if (nested) do_unlock();
            leave_cs(p);
            do_unlock();
            p.result += "1";
        } else {
            thread* o = G->recursive ? G->rm->owner.load() : G->m->owner.load();
            if (o == CURRENT) pmc_violation("failed-lock-owns", "lock() failed (errno %d) for thread %d but it is the owner", e, p.idx);
            if ((op == 'L' || op == 'H' || op == 'N') && !(e == EINTR && G->interrupts_sent[k])) pmc_violation("lock-failed-without-reason", "untimed lock() returned -1 errno=%d with no interrupt sent", e);
            // an interrupt sent before this lock() began belongs to an earlier sleep (or to none): it must not fail this one (C04)
            if (e == EINTR && G->interrupts_sent[k] == intr0 && G->nvcpu == 1)
                pmc_violation("stale-interrupt-delivered", "lock() of thread %d returned -1/EINTR at +%llu us although no interrupt was sent to it during this call", p.idx, (unsigned long long)(mv_now() - t_start));
            if (op == 'T') {
                bool timed_out = (e == ETIMEDOUT && mv_now() >= t_start + TMO);
                bool interrupted = (e == EINTR && G->interrupts_sent[k]);
                if (!timed_out && !interrupted) pmc_violation("lock-failed-without-reason", "timed lock() returned -1 errno=%d at +%llu us (deadline +%llu)", e, (unsigned long long)(mv_now() - t_start), (unsigned long long)TMO);
            }
            p.result += (e == ETIMEDOUT ? "t" : e == EINTR ? "e" : e == EBUSY ? "b" : "0");
        }
    }
    p.finished = true;      // (a finished thread may be joined and disposed at any time: nobody interrupts it any more)
}

// config: "<kind><retries><c|n>:<threads of vcpu0>|<threads of vcpu1>[:tdev]"  kind m=mutex R=recursive; threads comma separated op strings
void pmc_run(const char* config) {
    State st; G = &st;
    char kind; int retries; char cont; char prog[128]; char extra[16] = "";
    if (sscanf(config, "%c%d%c:%127[^:]:%15s", &kind, &retries, &cont, prog, extra) < 4) pmc_broken("bad config %s", config);
    st.recursive = (kind == 'R');
    std::string genlog;
    if (!strncmp(prog, "gen", 3)) {        // generated program: every combination of ops, every arrival order (one vCPU)
        pmc_window(1);
        std::string g = st.recursive ? mvprog::generate(prog, {"L", "T", "Y", "N", "i0", "i1"}) : mvprog::generate(prog, {"L", "T", "Z", "Y", "i0", "i1", "i2"});
        pmc_window(0);
        snprintf(prog, sizeof prog, "%s", g.c_str()); genlog = g + " ";
    }
    if (st.recursive) st.rm = new recursive_mutex(retries, cont == 'c'); else st.m = new mutex(retries, cont == 'c');
    int v = 0; std::string cur;
    for (char* c = prog;; c++) {
        if (*c == ',' || *c == '|' || *c == 0) {
            if (!cur.empty()) { PT p; p.ops = cur; p.vcpu = v; p.idx = st.pts.size(); st.pts.push_back(p); cur.clear(); }
            if (*c == '|') v++;
            if (*c == 0) break;
        } else cur += *c;
    }
    st.nvcpu = v + 1;
    pmc_window(0);
    mv_init();
    mvp::use_fast_stacks(true);     // released stacks (they hold the thread struct) are poisoned until reused
    mv_time_deviations(strstr(extra, "tdev") != nullptr);
    if (strstr(extra, "plain")) { if (st.recursive) mv_plain_region(st.rm, sizeof *st.rm); else mv_plain_region(st.m, sizeof *st.m); }    // plain accesses to the mutex object are scheduling points too
    mv_tso(strstr(extra, "tso") != nullptr); mv_switch_points(0);     // built with -DPHOTON_VERIF for the TSC hook only
    std::vector<pthread_t> vt;
    for (int cpu = 0; cpu < st.nvcpu; cpu++) {
        vt.push_back(mvp::spawn_vcpu([cpu] {
            std::vector<join_handle*> jh; std::vector<int> mine;
            for (auto& p : G->pts) if (p.vcpu == cpu) mine.push_back(p.idx);
            // create the photon threads first (their handles are needed by interrupters), parked behind the start flag
            G->ready++;
            while (G->go.load() == 0) {}
            for (int k : mine) { G->pts[k].th = thread_create11(64 * 1024, run_pt, k); jh.push_back(thread_enable_join(G->pts[k].th)); }
            for (auto h : jh) thread_join(h);
            if (++G->finished == G->nvcpu) pmc_window(0);
        }, 0, cpu == 0 ? "vcpu0" : cpu == 1 ? "vcpu1" : "vcpu2"));
    }
    while (st.ready.load() < st.nvcpu) {}
    pmc_window(1);
    st.go = 1;
    for (auto t : vt) mvp::join(t);
    pmc_window(0);
    // quiescence checks
    bool locked = st.recursive ? st.rm->locked() : st.m->locked();
    if (locked) pmc_violation("left-locked", "mutex still locked after every thread finished");
    if (st.acquires != st.releases) pmc_violation("acquire-release-mismatch", "%d acquires, %d releases", st.acquires, st.releases);
    std::string obs; for (auto& p : st.pts) { obs += p.result; obs += "/"; }
    pmc_obs("%s%s order=%s", genlog.c_str(), obs.c_str(), st.order.c_str());
    delete st.m; delete st.rm;
    mv_fini();
    G = nullptr;
}

static const PmcConfig CFG[] = {
    // name                      tiers  sched   time    env    total
    {"m0n:L|L",                  3, {2,3}, {0,0}, {0,0}, {0,0}, "two vCPUs, blocking lock each, no retries (sequential mutex behaviour)"},
    {"m1n:L|L",                  3, {1,2}, {0,0}, {0,0}, {0,0}, "one yield retry"},
    {"m0n:L|T:tdev",             3, {1,2}, {1,1}, {0,0}, {2,3}, "timed lock racing with the hand-off"},
    {"m0n:L,L|L",                3, {1,2}, {0,0}, {0,0}, {0,0}, "three threads over two vCPUs"},
    {"m0n:L,T|T:tdev",           2, {1,2}, {1,1}, {0,0}, {2,2}, ""},
    {"m0n:L,i0|L",               3, {1,2}, {0,0}, {0,0}, {0,0}, "interrupt of a blocking locker from its own vCPU"},
    {"m0n:L|L,i0",               3, {1,2}, {0,0}, {0,0}, {0,0}, "interrupt of a blocking locker from another vCPU"},
    {"m0c:L|L",                  3, {1,2}, {0,0}, {0,0}, {0,0}, "contending mode (owner not handed off)"},
    {"m0c:L,L|T:tdev",           2, {1,2}, {1,1}, {0,0}, {2,2}, ""},
    {"m0n:pL,pL,ppi0",           3, {0,0}, {0,0}, {0,0}, {0,0}, "one vCPU, every arrival order: interrupt of a waiter before / after the hand-off"},
    {"m0n:pL,pL,ppi1",           3, {0,0}, {0,0}, {0,0}, {0,0}, ""},
    {"R0n:pN,pL,ppi1",           3, {0,0}, {0,0}, {0,0}, {0,0}, ""},
    {"m0n:pT,pL,ppi0:tdev",      3, {0,0}, {1,2}, {0,0}, {0,0}, "one vCPU: timeout and interrupt and hand-off in every order"},
    {"m0n:pL,pLpL,pi0pi0",       2, {0,0}, {0,0}, {0,0}, {0,0}, ""},
    {"m0n:Y|L",                  3, {1,2}, {0,0}, {0,0}, {0,0}, "try_lock vs lock"},
    {"m0n:Z|L",                  3, {1,2}, {0,0}, {0,0}, {0,0}, "zero timeout"},
    {"R0n:N|L",                  3, {1,2}, {0,0}, {0,0}, {0,0}, "recursive mutex, nested lock"},
    {"m0n:L|L|L",                2, {1,2}, {0,0}, {0,0}, {0,0}, "three vCPUs"},
    {"m0n:H|T:tdev",             3, {1,2}, {1,1}, {0,0}, {2,3}, "the owner sleeps while holding: the timed waiter is queued when the unlock runs; its deadline may pass inside unlock()"},
    {"m0n:H|T,T:tdev",           2, {1,1}, {1,1}, {0,0}, {2,2}, ""},
    {"m0n:H|L,i1",               3, {1,2}, {0,0}, {0,0}, {0,0}, "... or the waiter is interrupted inside unlock()"},
    {"m0c:H|T:tdev",             2, {1,2}, {1,1}, {0,0}, {2,3}, ""},
    {"m0c:pLL,pL,pL",            3, {0,0}, {0,0}, {0,0}, {0,0}, ""},
    {"m0n:L|L:tso",              3, {1,2}, {0,0}, {1,1}, {2,3}, "x86-TSO: one store per thread may linger in the store buffer"},
    {"m0c:L|L:tso",              3, {1,2}, {0,0}, {1,1}, {2,3}, ""},
    {"m0n:L|L:plain",            3, {1,2}, {0,0}, {0,0}, {0,0}, "plain accesses to the mutex object (wait queue links) are scheduling points too"},
    {"m0n:H|T:tdev,plain",       2, {1,1}, {1,1}, {0,0}, {2,2}, ""},
    {"m0n:L|L,i0:tso",           2, {1,1}, {0,0}, {1,1}, {2,2}, ""}, 
    // generated programs last: they take whatever budget the configs above leave
    {"m0c:gen2x2",               3, {0,0}, {0,0}, {0,0}, {0,0}, "contending mode (unlock clears the owner; a woken waiter may find the mutex taken again and must go back to waiting)"},
    {"m0n:gen3x1:tdev",          3, {0,0}, {0,1}, {0,0}, {0,0}, "generated: every 3-thread program, one op each from {L,T,Z,Y,i0,i1,i2}, every arrival order"},
    {"m0n:gen2x2",               3, {0,0}, {0,0}, {0,0}, {0,0}, "generated: 2 threads x up to 2 ops"},
    {"m0n:gen3x2",               2, {0,0}, {0,0}, {0,0}, {0,0}, "generated: 3 threads x up to 2 ops"},
    {"m1c:gen3x2",               2, {0,0}, {0,0}, {0,0}, {0,0}, "... contending mode, one retry"},
    {"R0n:gen2x2",               3, {0,0}, {0,0}, {0,0}, {0,0}, "recursive mutex"},
    {"R0n:gen3x2",               2, {0,0}, {0,0}, {0,0}, {0,0}, "recursive mutex"},
    {"m0n:gen2x3+:tdev",         2, {0,0}, {1,1}, {0,0}, {0,0}, ""},
};
const PmcConfig* pmc_configs(int* n) { *n = sizeof CFG / sizeof CFG[0]; return CFG; }
const char* pmc_property(void) { return "C01"; }
const char* pmc_target(void) { return "mutex_xv"; }
int main(int argc, char** argv) { return pmc_main(argc, argv); }
