// C01 spin_xo: spinlock / ticket_spinlock / qspinlock between plain OS threads (no photon runtime at all).
// Unbounded-ish DFS: these programs are small enough for high preemption bounds.
#include <photon/thread/thread.h>
#include "mv_photon.h"
#include <vector>
#include <string>
#include <string.h>

using namespace photon;

struct St { int inside = 0; int acquired = 0; std::string order; };
static St* G;
static spinlock* SL; static ticket_spinlock* TL; static qspinlock* QL;
static char kind;

static int lock_op(char op) {
    switch (kind) {
        case 's': return op == 'Y' ? SL->try_lock() : SL->lock();
        case 't': return TL->lock();
        default:  return op == 'Y' ? QL->try_lock() : QL->lock();
    }
}
static void unlock_op() { switch (kind) { case 's': SL->unlock(); break; case 't': TL->unlock(); break; default: QL->unlock(); } }

static void body(int id, std::string ops) {
    for (char op : ops) {
        int r = lock_op(op);
        if (r == 0) {
            if (++G->inside != 1) pmc_violation("mutual-exclusion", "OS thread %d inside the section with %d other(s)", id, G->inside - 1);
            G->order += char('0' + id);
            mv_yield("in section");
            mv_yield("in section 2");
            G->inside--; G->acquired++;
            unlock_op();
        } else if (op != 'Y') pmc_violation("lock-failed", "blocking lock returned %d", r);
        else G->order += char('a' + id);
    }
}

// config "<s|t|q>:<ops thread0>|<ops thread1>[|...]"  ops: L lock, Y try_lock
void pmc_run(const char* config) {
    St st; G = &st;
    kind = config[0];
    SL = new spinlock; TL = new ticket_spinlock; QL = new qspinlock;
    std::vector<std::string> progs; std::string cur;
    bool tso = strstr(config, ":tso") != nullptr;
    for (const char* c = config + 2;; c++) { if (*c == '|' || *c == 0 || *c == ':') { progs.push_back(cur); cur.clear(); if (*c != '|') break; } else cur += *c; }
    pmc_window(0);
    mv_init();
    mv_tso(tso);
    pmc_window(1);
    std::vector<pthread_t> ts;
    for (size_t i = 0; i < progs.size(); i++) { std::string p = progs[i]; int id = i; ts.push_back(mvp::spawn_os([id, p] { body(id, p); }, "os")); }
    for (auto t : ts) mvp::join(t);
    pmc_window(0);
    if (kind == 's' && SL->locked()) pmc_violation("left-locked", "spinlock still locked");
    pmc_obs("order=%s", st.order.c_str());
    delete SL; delete TL; delete QL;
    mv_fini();
}

static const PmcConfig CFG[] = {
    {"s:L|L",      3, {4,8}, {0,0}, {0,0}, {0,0}, ""},
    {"s:LL|LY",    3, {3,5}, {0,0}, {0,0}, {0,0}, ""},
    {"s:L|L|L",    3, {2,4}, {0,0}, {0,0}, {0,0}, ""},
    {"t:L|L",      3, {4,8}, {0,0}, {0,0}, {0,0}, ""},
    {"t:LL|L|L",   3, {2,4}, {0,0}, {0,0}, {0,0}, ""},
    {"q:L|L",      3, {4,8}, {0,0}, {0,0}, {0,0}, ""},
    {"q:LL|LY",    3, {3,5}, {0,0}, {0,0}, {0,0}, ""},
    {"q:L|L|L",    3, {2,4}, {0,0}, {0,0}, {0,0}, ""},
    {"s:LL|LY:tso", 3, {2,3}, {0,0}, {1,2}, {3,4}, "store-buffer mode (x86-TSO)"},
    {"t:LL|L:tso",  3, {2,3}, {0,0}, {1,2}, {3,4}, ""},
    {"q:LL|LY:tso", 3, {2,3}, {0,0}, {1,2}, {3,4}, ""},
};
const PmcConfig* pmc_configs(int* n) { *n = sizeof CFG / sizeof CFG[0]; return CFG; }
const char* pmc_property(void) { return "C01"; }
const char* pmc_target(void) { return "spin_xo"; }
int main(int argc, char** argv) { return pmc_main(argc, argv); }
