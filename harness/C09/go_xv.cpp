// C09 go_xv: Go-style channel with senders, receivers and a closer on SEVERAL vCPUs under the controlled scheduler.
// config "<cap>:<prog>"   prog in mv_prog.h notation; ops:
//   s send (blocking)   t send with a 40 us timeout   x try_send      r recv (blocking)   u recv with a 40 us timeout   v try_recv
//   c close()           y thread_yield
// Oracle: every value whose send returned true is received exactly once (or still buffered when nobody is left to take it), nothing
// invented, per-sender order per receiver; false only with a reason (closed: a close() was issued; timeout: only for timed ops and only
// at/after the deadline; try ops may fail only if the channel was full/empty/closed at some instant of the call); and NOBODY STAYS BLOCKED
// while a partner / slot / item exists: blocking ops have no timeout, so a lost wake-up ends in the runtime's deadlock outcome, which is
// judged legitimate only if the channel state justifies every blocked thread (sender: buffer full and no receiver; receiver: buffer empty,
// no blocked sender, not closed).
#include <photon/thread/thread.h>
#include <photon/thread/go.h>
#include "mv_prog.h"
#include <algorithm>
#include <string.h>
using namespace photon;

static const uint64_t TMO = 40;
static const uint64_t FOREVER = 1000 * 1000;      // stand-in for "no timeout" in generated programs (virtual time)
static void judge_quiescence(const char* dump);
struct Op { char op; int th; int val; bool done = false, ok = false; uint64_t t0 = 0, t1 = 0; int err = 0; };
struct St {
    mvprog::Prog prog; channel<int>* ch = nullptr; int cap = 0;
    std::vector<Op*> ops; std::vector<int> got[16]; std::string log;
    std::atomic<int> close_issued{0};
    bool gen = false; int nwaits = 0; uint64_t judged_jump = ~0ull;
    int blocked_s = 0, blocked_r = 0;       // harness-level: threads currently inside a blocking op (plain ints: only for the deadlock judgement)
};
static St* G;

static void body(mvprog::PT& p) {
    int me = p.idx, seq = 0;
    for (char c : p.ops) {
        if (c == 'y') { thread_yield(); continue; }
        if (c == 'p') { int n = pmc_choose(3, PMC_PROG, 0, "pad yields"); for (int k = 0; k < n; k++) thread_yield(); continue; }
        if (c == 'q') { if (pmc_choose(2, PMC_PROG, 0, "pad yield")) thread_yield(); continue; }
        if (c == 'c') { G->close_issued = 1; G->ch->close(); G->log += char('a' + me); G->log += 'c'; continue; }
        Op* o = new Op; o->op = c; o->th = me; o->val = -1; G->ops.push_back(o);
        o->t0 = mv_now();
        pmc_log("  [+%llu] T%d %c begins (blocked s=%d r=%d)", (unsigned long long)(mv_now() - MV_T0), me, c, G->blocked_s, G->blocked_r);
        if (c == 's' || c == 't' || c == 'x') {
            o->val = me * 100 + seq++;
            uint64_t forever = FOREVER + 10000ull * (G->nwaits++ % 50);
            if (c == 's' && G->gen) {
                // generated program: "forever" is a 1 s stand-in; when it expires nobody could run: judge the quiescent state, then go on
                G->blocked_s++; o->ok = G->ch->send(o->val, Timeout(forever));
                if (!o->ok && errno == ETIMEDOUT && mv_now() >= o->t0 + forever) { pmc_log("  [+%llu] T%d s stand-in expired (blocked s=%d r=%d)", (unsigned long long)(mv_now() - MV_T0), me, G->blocked_s, G->blocked_r); if (G->judged_jump != mv_time_jumps() && mv_time_heur() == 0 && mv_time_devs() == 0) { G->judged_jump = mv_time_jumps(); judge_quiescence("stand-in timeout"); } G->blocked_s--; o->done = true; o->err = ETIMEDOUT; o->t1 = mv_now(); G->log += char('a' + me); G->log += "sb"; continue; }
                G->blocked_s--;
            } else
            if (c == 's') { G->blocked_s++; o->ok = G->ch->send(o->val); G->blocked_s--; }
            else if (c == 't') { mv_register_deadline(mv_now() + TMO); o->ok = G->ch->send(o->val, Timeout(TMO)); }
            else o->ok = G->ch->try_send(o->val);
        } else {
            int v = -7;
            uint64_t forever = FOREVER + 10000ull * (G->nwaits++ % 50);
            if (c == 'r' && G->gen) {
                G->blocked_r++; o->ok = G->ch->recv(v, Timeout(forever));
                if (!o->ok && errno == ETIMEDOUT && mv_now() >= o->t0 + forever) { pmc_log("  [+%llu] T%d r stand-in expired (blocked s=%d r=%d)", (unsigned long long)(mv_now() - MV_T0), me, G->blocked_s, G->blocked_r); if (G->judged_jump != mv_time_jumps() && mv_time_heur() == 0 && mv_time_devs() == 0) { G->judged_jump = mv_time_jumps(); judge_quiescence("stand-in timeout"); } G->blocked_r--; o->done = true; o->err = ETIMEDOUT; o->t1 = mv_now(); G->log += char('a' + me); G->log += "rb"; continue; }
                G->blocked_r--;
            } else
            if (c == 'r') { G->blocked_r++; o->ok = G->ch->recv(v); G->blocked_r--; }
            else if (c == 'u') { mv_register_deadline(mv_now() + TMO); o->ok = G->ch->recv(v, Timeout(TMO)); }
            else o->ok = G->ch->try_recv(v);
            if (o->ok) { o->val = v; G->got[me].push_back(v); }
        }
        o->err = errno; o->t1 = mv_now(); o->done = true;
        pmc_log("  [+%llu] T%d %c returns %d val=%d", (unsigned long long)(mv_now() - MV_T0), me, c, (int)o->ok, o->val);
        G->log += char('a' + me); G->log += c; G->log += o->ok ? '+' : '-';
        if (!o->ok) {
            bool timed = c == 't' || c == 'u', tr = c == 'x' || c == 'v';
            if (!tr && !G->close_issued.load()) {
                if (!timed) pmc_violation("failed-without-reason", "blocking %s by thread %d returned false although close() was never called (errno %d)", c == 's' ? "send" : "recv", me, o->err);
                if (o->t1 - o->t0 < TMO) pmc_violation("failed-without-reason", "timed %s by thread %d returned false after %llu us (< %llu) and close() was never called (errno %d)",
                                                       c == 't' ? "send" : "recv", me, (unsigned long long)(o->t1 - o->t0), (unsigned long long)TMO, o->err);
            }
        }
    }
}

static void finalize(bool deadlocked) {
    St& st = *G;
    std::vector<int> sent, recvd;
    for (auto o : st.ops) if ((o->op == 's' || o->op == 't' || o->op == 'x') && o->ok) sent.push_back(o->val);
    for (int i = 0; i < 16; i++) {
        int last[16]; for (auto& x : last) x = -1;
        for (int v : st.got[i]) {
            recvd.push_back(v);
            int snd = v / 100; if (snd < 0 || snd >= 16) pmc_violation("value-invented", "receiver %d got %d", i, v);
            if (v <= last[snd]) pmc_violation("sender-order", "receiver %d got %d after %d", i, v, last[snd]);
            last[snd] = v;
        }
    }
    // what is still buffered (senders blocked in the unbuffered hand-off keep their value: their send has not returned true)
    int v; std::vector<int> left; while (st.ch->try_recv(v)) left.push_back(v);
    std::vector<int> all = recvd; all.insert(all.end(), left.begin(), left.end());
    std::sort(all.begin(), all.end()); std::sort(sent.begin(), sent.end());
    for (size_t i = 1; i < all.size(); i++) if (all[i] == all[i - 1]) pmc_violation("value-duplicated", "value %d delivered twice", all[i]);
    for (int x : recvd) if (!std::binary_search(sent.begin(), sent.end(), x)) {
        bool attempted = false, pending = false;
        for (auto o : st.ops) if (o->val == x && (o->op == 's' || o->op == 't' || o->op == 'x')) { attempted = true; if (!o->done) pending = true; }
        if (pending && deadlocked) continue;      // the sender is still inside send() (unbuffered: waiting for the taker's acknowledgement)
        // a send that returned false because close() raced with the hand-off may still have been taken by the receiver: the statement
        // only demands that nothing is delivered that was not sent (the sv target reads it the same way); recorded in the observation
        if (attempted) { st.log += "|delivered-though-send-false"; continue; }
        pmc_violation("value-invented", "value %d was received but nobody sent it", x);
    }
    for (int x : sent) if (!std::binary_search(all.begin(), all.end(), x)) pmc_violation("value-lost", "send of %d returned true but it was never received and is not in the buffer", x);
    std::string obs = st.log; obs += deadlocked ? "|blocked s" + std::to_string(st.blocked_s) + " r" + std::to_string(st.blocked_r) : std::string(); obs += "|left=" + std::to_string(left.size());
    pmc_obs("%s", obs.c_str());
}

// Everybody is blocked for good. Legitimate only if the channel state justifies each blocked thread.
static void judge_quiescence(const char* dump) {
    St& s = *G;
    size_t buffered = s.ch->size();
    bool closed = s.ch->is_closed();
    if (s.blocked_s > 0 && s.blocked_r > 0) pmc_violation("lost-wakeup", "a blocked sender and a blocked receiver coexist (cap %d, %zu buffered): %s", s.cap, buffered, dump);
    if (s.blocked_r > 0 && buffered > 0) pmc_violation("lost-wakeup", "%d receiver(s) blocked forever with %zu item(s) in the buffer: %s", s.blocked_r, buffered, dump);
    if (s.blocked_s > 0 && s.cap > 0 && buffered < (size_t)s.cap) pmc_violation("lost-wakeup", "%d sender(s) blocked forever with %zu of %d slots used: %s", s.blocked_s, buffered, s.cap, dump);
    if (closed && (s.blocked_s || s.blocked_r)) pmc_violation("lost-wakeup", "channel closed but %d sender(s) / %d receiver(s) still blocked: %s", s.blocked_s, s.blocked_r, dump);
}
static void on_deadlock(const char* dump) {
    St& s = *G;
    for (auto& p : s.prog.pts) if (!p.done) {
        bool in_blocking = false; for (auto o : s.ops) if (o->th == p.idx && !o->done && (o->op == 's' || o->op == 'r')) in_blocking = true;
        if (!in_blocking) pmc_violation("deadlock", "thread %d is stuck outside a blocking channel operation: %s", p.idx, dump);
    }
    judge_quiescence(dump);
    if (!s.blocked_s && !s.blocked_r) pmc_violation("deadlock", "nothing runnable: %s", dump);
    finalize(true);
    pmc_done();
}

void pmc_run(const char* config) {
    St st; G = &st; st.cap = config[0] - '0';
    pmc_window(1);     // generated programs are explorer choices
    if (st.prog.parse_or_generate(config + 2, {"s", "r", "t", "u", "x", "v", "c"})) { st.gen = true; st.log = st.prog.generated + " "; }
    pmc_window(0);
    mv_init(); mvp::use_fast_stacks(true);
    mv_on_deadlock = on_deadlock;
    mv_time_deviations(strpbrk(config + 2, "tu") != nullptr);
    st.ch = new channel<int>(st.cap);
    st.prog.run(body);
    finalize(false);
    delete st.ch;
    for (auto o : st.ops) delete o;
    mv_fini(); G = nullptr;
}

static const PmcConfig CFG[] = {
    {"1:s|r",           3, {2,3}, {0,0}, {0,0}, {0,0}, "buffered, one sender, one receiver on two vCPUs (receiver registers while the sender pushes)"},
    {"1:ss|r",          3, {1,3}, {0,0}, {0,0}, {0,0}, "sender blocks on a full buffer while the receiver pops"},
    {"1:ss|rr",         3, {1,2}, {0,0}, {0,0}, {0,0}, ""},
    {"2:s,s|r,r",       3, {1,2}, {0,0}, {0,0}, {0,0}, "two senders / two receivers"},
    {"1:r|c",           3, {2,3}, {0,0}, {0,0}, {0,0}, "close() racing with a receiver that is about to block"},
    {"1:ss|c",          3, {2,3}, {0,0}, {0,0}, {0,0}, "close() racing with a sender that is about to block"},
    {"1:s|r|c",         3, {1,2}, {0,0}, {0,0}, {0,0}, "three vCPUs"},
    {"0:s|r",           3, {2,3}, {0,0}, {0,0}, {0,0}, "unbuffered rendezvous across vCPUs"},
    {"0:s,s|r,r",       3, {1,2}, {0,0}, {0,0}, {0,0}, ""},
    {"0:s|r|c",         3, {1,2}, {0,0}, {0,0}, {0,0}, ""},
    {"0:ss|r|r",        2, {1,2}, {0,0}, {0,0}, {0,0}, ""},
    {"1:t|u",           3, {1,2}, {1,1}, {0,0}, {0,0}, "timed ops, timeout landing anywhere"},
    {"0:t|u",           3, {1,2}, {1,1}, {0,0}, {0,0}, ""},
    {"1:x,s|v,r",       3, {1,2}, {0,0}, {0,0}, {0,0}, "try ops next to blocking ones"},
    {"2:sss|r|r",       2, {1,2}, {0,0}, {0,0}, {0,0}, ""},
    // generated programs last: they take whatever budget the configs above leave
    {"1:gen1|1x2",      3, {0,0}, {0,0}, {0,0}, {0,0}, "generated: 1+1 threads on two vCPUs, up to 2 ops each from {s,r,t,u,x,v,c}, every arrival order (default schedule)"},
    {"0:gen1|1x2",      3, {0,0}, {0,0}, {0,0}, {0,0}, ""},
    {"2:gen2|1x1",      3, {0,1}, {0,0}, {0,0}, {0,0}, "2+1 threads, one op each; thorough: + one preemption"},
    {"1:gen2|1x2",      2, {0,0}, {0,0}, {0,0}, {0,0}, ""},
    {"0:gen2|1x2",      2, {0,0}, {0,0}, {0,0}, {0,0}, ""},
};
const PmcConfig* pmc_configs(int* n) { *n = sizeof CFG / sizeof CFG[0]; return CFG; }
const char* pmc_property(void) { return "C09"; }
const char* pmc_target(void) { return "go_xv"; }
int main(int argc, char** argv) { return pmc_main(argc, argv); }
