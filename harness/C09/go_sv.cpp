// C09 go_sv: Go-style channel on ONE vCPU -- every arrival order of <=3 actors (+ optional closer),
// capacities 0/1/2, blocking / timed / try operations, timeouts landing anywhere (TIME deviations).
// Oracle: value conservation (sent-true == received exactly once, nothing invented), per-sender order,
// `false` only for close/timeout/try, nobody blocked while a partner / slot / item exists, drain after close.
#include "sv_rt.h"
#include <photon/thread/thread.h>
#include <photon/thread/thread11.h>
#include <photon/thread/go.h>
#include <vector>
#include <string>
#include <string.h>
#include <stdio.h>

using namespace photon;

enum { K_BLOCK = 0, K_TIMED = 1, K_TRY = 2 };
static const uint64_t TMO = 30;

struct Actor {
    char role;            // 'S', 'R', 'C'
    int id, nops;
    int state = 0;        // 0 not started, 1 in op, 2 between ops, 3 done
    int cur_op = -1, cur_kind = 0;
    uint64_t cur_deadline = 0;
};

static int g_cap; static bool g_has_close;
static std::vector<Actor> A;
static channel<int>* CH;
static std::vector<int> attempted, sent_ok, received;   // value = sender*10+seq
static bool close_called = false, finishing = false;
static int done_count = 0;
static std::string kindmenu;   // which kinds are enabled: subset of "btn" (block, timed, try)
static void reset_state() {
    A.clear(); attempted.clear(); sent_ok.clear(); received.clear();
    close_called = finishing = false; done_count = 0; g_has_close = false; CH = nullptr;
}

static int pick_kind(const char* label) {
    int n = kindmenu.size();
    int k = pmc_choose(n, PMC_PROG, 0, label);
    char c = kindmenu[k];
    return c == 'b' ? K_BLOCK : c == 't' ? K_TIMED : K_TRY;
}

static void pads(const char* label, int maxpad) {
    int p = pmc_choose(maxpad + 1, PMC_PROG, 0, label);
    for (int i = 0; i < p; i++) { sv::time_point("pad"); thread_yield(); }
}
static int g_maxpad = 2;

static void check_false_reason(Actor& a, const char* what) {
    if (finishing) return;      // harness closed the channel to release legitimately blocked threads
    // a false return is legitimate only for: try op, closed channel, or expired deadline
    if (a.cur_kind == K_TRY) return;
    if (CH->is_closed()) return;
    if (a.cur_kind == K_TIMED && sv::vnow >= a.cur_deadline) return;
    pmc_violation("false-without-reason", "%s by %c%d returned false: not closed, kind=%d, vnow=%llu deadline=%llu", what, a.role, a.id,
                  a.cur_kind, (unsigned long long)(sv::vnow - sv::T0), (unsigned long long)(a.cur_deadline ? a.cur_deadline - sv::T0 : 0));
}

static void actor_body(int idx) {
    Actor& a = A[idx];
    char lb[32];
    for (int op = 0; op < a.nops; op++) {
        snprintf(lb, sizeof lb, "pad %c%d.%d", a.role, a.id, op);
        pads(lb, g_maxpad);
        a.cur_op = op;
        if (a.role == 'C') {
            a.state = 1; close_called = true; CH->close(); a.state = 2;
            pmc_obs("C;");
            continue;
        }
        snprintf(lb, sizeof lb, "kind %c%d.%d", a.role, a.id, op);
        a.cur_kind = pick_kind(lb);
        a.cur_deadline = 0;
        if (a.cur_kind == K_TIMED) { a.cur_deadline = sv::vnow + TMO; sv::register_deadline(a.cur_deadline); }
        a.state = 1;
        if (a.role == 'S') {
            int v = a.id * 10 + op;
            attempted.push_back(v);
            bool ok = a.cur_kind == K_BLOCK ? CH->send(v) : a.cur_kind == K_TIMED ? CH->send(v, TMO) : CH->try_send(v);
            a.state = 2;
            if (ok && !finishing) sent_ok.push_back(v); else if (!ok) check_false_reason(a, "send");
            pmc_obs("S%d.%d%c=%d;", a.id, op, "btn"[a.cur_kind], (int)ok);
        } else {
            int v = -1;
            bool ok = a.cur_kind == K_BLOCK ? CH->recv(v) : a.cur_kind == K_TIMED ? CH->recv(v, TMO) : CH->try_recv(v);
            a.state = 2;
            if (ok && !finishing) received.push_back(v);
            else if (!ok) {
                check_false_reason(a, "recv");
                if (!finishing && a.cur_kind != K_TRY && CH->is_closed() && CH->size() > 0 && !(a.cur_kind == K_TIMED && sv::vnow >= a.cur_deadline))
                    pmc_violation("closed-before-drained", "recv by R%d reported closed while %zu items are still buffered", a.id, CH->size());
            }
            pmc_obs("R%d.%d%c=%d:%d;", a.id, op, "btn"[a.cur_kind], (int)ok, ok ? v : -1);
        }
    }
    a.state = 3; done_count++;
}

static void final_checks(const char* when) {
    // drain whatever is still inside the channel (buffer or hand-off slot)
    int v; int drained = 0;
    while (drained < 16 && CH->try_recv(v)) { received.push_back(v); drained++; }
    pmc_obs("%s;drained=%d;", when, drained);
    // nothing invented, nothing duplicated
    for (size_t i = 0; i < received.size(); i++) {
        bool att = false; for (int x : attempted) if (x == received[i]) att = true;
        if (!att) pmc_violation("value-invented", "received %d which no sender sent", received[i]);
        for (size_t j = 0; j < i; j++) if (received[j] == received[i]) pmc_violation("value-duplicated", "value %d received twice", received[i]);
    }
    // every send that reported success was received (or was still inside the channel at the end)
    for (int x : sent_ok) {
        bool got = false; for (int y : received) if (y == x) got = true;
        if (!got) pmc_violation("value-lost", "send of %d returned true but no recv ever returned it and it is not in the channel", x);
    }
    // per-sender order in the global receive log (single vCPU: log order == dequeue order)
    for (size_t i = 0; i < received.size(); i++)
        for (size_t j = i + 1; j < received.size(); j++)
            if (received[i] / 10 == received[j] / 10 && received[i] > received[j])
                pmc_violation("order", "values of sender %d received out of order: %d before %d", received[i] / 10, received[i], received[j]);
}

static void deadlock_handler() {
    // every thread is blocked with no finite deadline: who, and is that legitimate?
    int bs = 0, br = 0; std::string who;
    for (auto& a : A) if (a.state == 1) {
        if (a.role == 'S') bs++; else if (a.role == 'R') br++;
        char b[32]; snprintf(b, sizeof b, "%c%d.%d ", a.role, a.id, a.cur_op); who += b;
    }
    if (finishing) pmc_violation("blocked-after-close", "close() was called (by the harness, to end the run) but %s still blocked forever", who.c_str());
    pmc_obs("blocked[%s];", who.c_str());
    if (close_called && (bs || br))
        pmc_violation("blocked-after-close", "close() was called but %s still blocked forever", who.c_str());
    if (bs && br)
        pmc_violation("blocked-with-partner", "sender(s) and receiver(s) blocked forever at the same time: %s (cap=%d size=%zu)", who.c_str(), g_cap, CH->size());
    if (g_cap > 0) {
        if (br && CH->size() > 0) pmc_violation("blocked-with-item", "receiver blocked forever while %zu item(s) are buffered: %s", CH->size(), who.c_str());
        if (bs && CH->size() < (size_t)g_cap) pmc_violation("blocked-with-slot", "sender blocked forever while the buffer has a free slot (size=%zu cap=%d): %s", CH->size(), g_cap, who.c_str());
    }
    final_checks("quiescent-blocked");
    // release the legitimately blocked threads so that the run can end cleanly (runner reuse)
    finishing = true;
    CH->close();
}

// config name: "cap<k>:<actors>:<kinds>[:pad<n>]"  actors like "S1,S1,R2" or "S2,R1,R1,C"; kinds subset of b,t,n
void pmc_run(const char* config) {
    reset_state();
    char actors[64], kinds[8]; int pad = 2;
    if (sscanf(config, "cap%d:%63[^:]:%7[^:]:pad%d", &g_cap, actors, kinds, &pad) < 3) pmc_broken("bad config %s", config);
    g_maxpad = pad; kindmenu = kinds;
    int ns = 0, nr = 0;
    for (char* tok = strtok(actors, ","); tok; tok = strtok(nullptr, ",")) {
        Actor a; a.role = tok[0]; a.nops = tok[1] ? tok[1] - '0' : 1; a.id = a.role == 'S' ? ns++ : a.role == 'R' ? nr++ : 0;
        if (a.role == 'C') g_has_close = true;
        A.push_back(a);
    }
    pmc_window(0);
    sv::init();
    sv::on_deadlock = deadlock_handler;
    CH = new channel<int>(g_cap);
    pmc_window(1);
    std::vector<join_handle*> jh;
    for (size_t i = 0; i < A.size(); i++) jh.push_back(thread_enable_join(thread_create11(actor_body, (int)i)));
    for (auto h : jh) thread_join(h);
    if (!finishing) final_checks("all-done");
    pmc_window(0);
    delete CH; CH = nullptr;
    sv::fini();
}

static const PmcConfig CFG[] = {
    // name                              tiers  sched   time    env    total
    {"cap0:S1,S1,R2:b:pad2",             3, {0,0}, {0,0}, {0,0}, {0,0}, "the shape named in the property: two blocking senders, one receiver"},
    {"cap0:S1,S1,R1,R1:b:pad2",          3, {0,0}, {0,0}, {0,0}, {0,0}, ""},
    {"cap0:S2,R1,R1:b:pad2",             3, {0,0}, {0,0}, {0,0}, {0,0}, ""},
    {"cap0:S1,S1,R2:btn:pad1",           3, {0,0}, {1,2}, {0,0}, {0,0}, "all op kinds, timeouts anywhere"},
    {"cap0:S1,R1,C:btn:pad2",            3, {0,0}, {1,2}, {0,0}, {0,0}, "close racing"},
    {"cap0:S1,S1,R1,C:bt:pad1",          2, {0,0}, {1,2}, {0,0}, {0,0}, ""},
    {"cap1:S2,R2:btn:pad2",              3, {0,0}, {1,2}, {0,0}, {0,0}, ""},
    {"cap1:S1,S1,R2:btn:pad1",           3, {0,0}, {1,2}, {0,0}, {0,0}, ""},
    {"cap1:S2,R1,C:btn:pad1",            3, {0,0}, {1,2}, {0,0}, {0,0}, "drain after close"},
    {"cap2:S2,S1,R2:btn:pad1",           3, {0,0}, {1,2}, {0,0}, {0,0}, ""},
    {"cap2:S2,R1,R1,C:bt:pad1",          2, {0,0}, {1,2}, {0,0}, {0,0}, ""},
    {"cap1:S2,S2,R2,R2:b:pad2",          2, {0,0}, {0,0}, {0,0}, {0,0}, ""},
};
const PmcConfig* pmc_configs(int* n) { *n = sizeof CFG / sizeof CFG[0]; return CFG; }
const char* pmc_property(void) { return "C09"; }
const char* pmc_target(void) { return "go_sv"; }
int main(int argc, char** argv) { return pmc_main(argc, argv); }
