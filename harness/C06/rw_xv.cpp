// C06 rw_xv: rwlock and qrwlock under the controlled multi-vCPU scheduler.
// ops: h blocking read lock held for 200 us, R/W blocking read/write lock, r/w timed (40us), s/x try_lock shared/exclusive (qrwlock only), i<k> interrupt thread k, y yield
#define protected public
#define private public
#include <photon/thread/thread.h>
#undef protected
#undef private
#include "mv_prog.h"
#include <string.h>
using namespace photon;
static const uint64_t TMO = 40;

struct St {
    bool q; rwlock rw; qrwlock qrw;
    int readers = 0, writers = 0, acquired = 0, released = 0;
    mvprog::Prog prog; int interrupts[16] = {0}; bool inlock[16] = {false}; std::string log;
    std::vector<uint64_t> free_times; uint64_t last_writer_acq = 0;    // virtual times: lock became completely free / a writer was admitted
    int writers_waiting = 0; std::vector<int> ww_at_free;
    uint64_t seq = 0; std::vector<uint64_t> free_seq;                  // logical order of events (several events share one virtual instant)              // writers inside lock() when the lock became free
};
static St* G;

static void body(mvprog::PT& p) {
    int me = p.idx;
    for (size_t i = 0; i < p.ops.size(); i++) {
        char op = p.ops[i];
        if (op == 'y') { thread_yield(); continue; }
        if (op == 'p') { int npad = pmc_choose(3, PMC_PROG, 0, "pad yields"); for (int kk = 0; kk < npad; kk++) thread_yield(); continue; }   // every arrival order on one vCPU
        if (op == 'q') { if (pmc_choose(2, PMC_PROG, 0, "pad yield")) thread_yield(); continue; }
        if (op == 'i') { int t = p.ops[++i] - '0'; if (t < (int)G->prog.pts.size() && G->prog.pts[t].th && !G->prog.pts[t].done) { G->interrupts[t]++; thread_interrupt(G->prog.pts[t].th, EINTR); } p.result += "i"; continue; }
        bool hold = (op == 'h');              // h: blocking read lock, held for 200 us of virtual time
        if (hold) op = 'R';
        bool wr = (op == 'W' || op == 'w' || op == 'x');
        bool timed = (op == 'r' || op == 'w'), tryl = (op == 's' || op == 'x');
        int mode = wr ? WLOCK : RLOCK;
        uint64_t t0 = mv_now(); uint64_t s0 = ++G->seq; errno = 0; int r;
        pmc_log("  [+%llu] T%d %c begins", (unsigned long long)(mv_now() - MV_T0), me, op);
        G->inlock[me] = true; if (wr && !tryl) G->writers_waiting++;
        if (timed) mv_register_deadline(mv_now() + TMO);
        if (G->q) r = tryl ? G->qrw.try_lock(mode) : G->qrw.lock(mode, timed ? Timeout(TMO) : Timeout());
        else r = G->rw.lock(mode, timed ? Timeout(TMO) : Timeout());
        int e = errno;
        pmc_log("  [+%llu] T%d %c returns %d (errno %d)", (unsigned long long)(mv_now() - MV_T0), me, op, r, e);
        G->inlock[me] = false; if (wr && !tryl) G->writers_waiting--;
        if (r == 0) {
            if (wr) { if (G->writers || G->readers) pmc_violation("exclusion", "writer %d admitted while %d writer(s) and %d reader(s) hold the lock", me, G->writers, G->readers); G->writers++; G->last_writer_acq = mv_now(); }
            else {
                if (G->writers) pmc_violation("exclusion", "reader %d admitted while a writer holds the lock", me); G->readers++;
                // "after the last holder unlocks ... all waiting readers are admitted": a reader that was already waiting when the lock
                // became free must not be admitted only after another reader's whole (200 us) hold
                // (only while the clock has moved solely because nobody could run: after a TIME deviation a runnable reader may simply
                //  not have been scheduled for that long)
                if (mv_time_devs() == 0) for (size_t fi = 0; fi < G->free_times.size(); fi++) {
                    uint64_t F = G->free_times[fi];
                    if (s0 < G->free_seq[fi] && mv_now() >= F + 150 && G->last_writer_acq < F && G->ww_at_free[fi] == 0)
                        pmc_violation("reader-admitted-late", "reader %d waited since +%llu us, the lock became free at +%llu us with no writer waiting, but it was admitted only at +%llu us (readers admitted one at a time?)",
                                      me, (unsigned long long)(t0 - MV_T0), (unsigned long long)(F - MV_T0), (unsigned long long)(mv_now() - MV_T0));
                }
            }
            G->acquired++;
            G->log += char('a' + me); G->log += wr ? 'W' : 'R';
            mv_yield("holding");
            if (G->prog.pts.size() > (size_t)G->prog.nos) thread_yield();
            mv_yield("holding 2");
            if (hold) thread_usleep(200);
            if (wr) G->writers--; else G->readers--;
            if (!G->writers && !G->readers) { G->free_times.push_back(mv_now()); G->free_seq.push_back(++G->seq); G->ww_at_free.push_back(G->writers_waiting); }
            G->released++;
            pmc_log("  [+%llu] T%d unlocks", (unsigned long long)(mv_now() - MV_T0), me);
            int u = G->q ? G->qrw.unlock() : G->rw.unlock();
            if (u != 0) pmc_violation("unlock-failed", "unlock returned %d", u);
            p.result += "1";
        } else {
            bool to = timed && e == ETIMEDOUT && mv_now() >= t0 + TMO;
            bool intr = e == EINTR && G->interrupts[me] && !tryl;
            if (!tryl && !to && !intr) pmc_violation("lock-failed-without-reason", "op %c by %d returned -1 errno=%d at +%llu", op, me, e, (unsigned long long)(mv_now() - t0));
            p.result += tryl ? "b" : to ? "t" : "e";
            G->log += char('a' + me); G->log += '0';
        }
    }
}

static void on_deadlock(const char* dump) {
    int nb = 0; for (int k = 0; k < 16; k++) if (G->inlock[k]) nb++;
    // somebody is blocked forever in lock(): legitimate only if a holder never unlocks, which no program does
    pmc_violation(nb ? "blocked-forever" : "deadlock", "%d thread(s) blocked in lock() forever while holders=%d/%d: %s", nb, G->readers, G->writers, dump);
}

// config "<r|q>:<prog>[:tdev]"
void pmc_run(const char* config) {
    St st; G = &st;
    char prog[128]; char extra[24] = "";
    st.q = config[0] == 'q';
    if (sscanf(config + 2, "%127[^:]:%23s", prog, extra) < 1) pmc_broken("bad config");
    st.rw.mtx.retries = 2;      // rwlock's internal mutex spins through 100 yield-retries by default: 2 keeps the same code path tractable
    pmc_window(1);     // generated programs are explorer choices
    if (st.prog.parse_or_generate(prog, {"R", "W", "r", "w", "h", "i0", "i1"})) st.log = st.prog.generated + " ";
    pmc_window(0);
    st.prog.early_join = strstr(extra, "early") != nullptr;
    pmc_window(0);
    mv_init(); mvp::use_fast_stacks(true);
    mv_on_deadlock = on_deadlock;
    mv_time_deviations(strstr(extra, "tdev") != nullptr);
    if (strstr(extra, "plain")) { mv_plain_region(&st.rw, sizeof st.rw); mv_plain_region(&st.qrw, sizeof st.qrw); }     // plain accesses to the lock objects are scheduling points too
    mv_tso(strstr(extra, "tso") != nullptr); mv_switch_points(0);     // built with -DPHOTON_VERIF for the TSC hook only
    st.prog.run(body);
    if (st.acquired != st.released) pmc_violation("acquire-release-mismatch", "%d/%d", st.acquired, st.released);
    // the lock must be exactly "unlocked" now: a fresh exclusive lock with timeout 0 succeeds. (needs a vCPU)
    pthread_t t = mvp::spawn_vcpu([&] {
        int r = st.q ? st.qrw.lock(WLOCK, Timeout(0)) : st.rw.lock(WLOCK, Timeout(0));
        if (r != 0) pmc_violation("state-not-unlocked", "after all holders unlocked, lock(WLOCK, 0) fails: state=%lld", (long long)(st.q ? st.qrw.lock_state.load() : st.rw.state));
        if (st.q) st.qrw.unlock(); else st.rw.unlock();
    }, 0, "final");
    mvp::join(t);
    pmc_obs("%s %s", st.prog.results().c_str(), st.log.c_str());
    mv_fini(); G = nullptr;
}

static const PmcConfig CFG[] = {
    {"r:W|R",          3, {1,2}, {0,0}, {0,0}, {0,0}, ""},
    {"q:W|R",          3, {2,3}, {0,0}, {0,0}, {0,0}, ""},
    {"r:W|W",          3, {1,2}, {0,0}, {0,0}, {0,0}, ""},
    {"q:W|W",          3, {2,3}, {0,0}, {0,0}, {0,0}, ""},
    {"r:R,R|W",        3, {1,2}, {0,0}, {0,0}, {0,0}, ""},
    {"q:R,R|W",        3, {1,2}, {0,0}, {0,0}, {0,0}, ""},
    {"r:W,R|R",        3, {1,2}, {0,0}, {0,0}, {0,0}, ""},
    {"q:W|R|R",        3, {1,2}, {0,0}, {0,0}, {0,0}, "writer unlock must wake all waiting readers"},
    {"q:pW,pR,pw,ph",  3, {0,0}, {0,0}, {0,0}, {0,0}, "writer holds, reader and timed writer queue, a late reader slips in, the writer gives up: the last reader must wake the queued reader"},
    {"q:W|R:tso",      3, {1,2}, {0,0}, {1,1}, {2,3}, "x86-TSO store buffers (qrwlock is built on atomics only)"},
    {"q:W|W:tso",      3, {1,2}, {0,0}, {1,1}, {2,3}, ""},
    {"q:R,R|W:tso",    2, {1,1}, {0,0}, {1,1}, {2,2}, ""},
    {"r:W|R:tso",      3, {1,1}, {0,0}, {1,1}, {2,2}, ""},
    {"r:W|R:plain",    3, {1,2}, {0,0}, {0,0}, {0,0}, "plain accesses to the lock object (state word, wait queue) are scheduling points too"},
    {"q:W|R:plain",    3, {1,2}, {0,0}, {0,0}, {0,0}, ""},
    {"r:W|w:tdev",     3, {1,2}, {1,1}, {0,0}, {2,3}, "a waiter gives up exactly when it is being admitted"},
    {"q:W|w:tdev",     3, {1,2}, {1,1}, {0,0}, {2,3}, ""},
    {"q:W|r:tdev",     3, {1,2}, {1,1}, {0,0}, {2,2}, ""},
    {"r:R|w,R:tdev",   3, {1,2}, {1,1}, {0,0}, {1,2}, "timed writer at the queue head, reader behind it"},
    {"q:R|w,W:tdev",   2, {1,2}, {1,1}, {0,0}, {2,2}, "timed writer consumes the notification meant for a writer"},
    {"r:ph,pw,ph,ph:tdev", 3, {0,0}, {1,1}, {0,0}, {0,0}, "one vCPU: a timed writer queued behind a reader gives up; the readers queued behind it must all be admitted together"},
    {"r:ph,pW,ph,ph,ppi1", 3, {0,0}, {0,0}, {0,0}, {0,0}, "... the writer is interrupted instead"},
    {"q:ph,pw,ph,ph:tdev", 3, {0,0}, {1,1}, {0,0}, {0,0}, ""},
    {"r:h|w,h|h:tdev",   2, {1,1}, {1,1}, {0,0}, {2,2}, ""},
    {"q:W|x,s",        3, {1,2}, {0,0}, {0,0}, {0,0}, "try_lock"},
    {"r:pW,pR,pR",     3, {0,0}, {0,0}, {0,0}, {0,0}, "one vCPU, every arrival order"},
    {"q:pW,pR,pW",     3, {0,0}, {0,0}, {0,0}, {0,0}, ""},
    {"r:pw,pW,pR:tdev",3, {0,0}, {1,2}, {0,0}, {0,0}, "one vCPU: timed writer vs unlock in every order"},
    {"q:pw,pR,pW,ppi0:tdev", 3, {0,0}, {1,1}, {0,0}, {0,0}, ""},
    {"r:pR,pW,ppi1",   3, {0,0}, {0,0}, {0,0}, {0,0}, "interrupt a waiting writer before / after it is admitted"},
    {"r:W|W,i1",       3, {1,2}, {0,0}, {0,0}, {0,0}, "interrupt a waiting writer"},
    {"q:W|R,i1",       3, {1,2}, {0,0}, {0,0}, {0,0}, ""},
    {"q:W,R|R,W",      2, {1,2}, {0,0}, {0,0}, {0,0}, ""},
    {"r:W,R|R,W",      2, {1,2}, {0,0}, {0,0}, {0,0}, ""},
    // generated programs last: they take whatever budget the configs above leave
    {"q:gen4x1",       3, {0,0}, {0,0}, {0,0}, {0,0}, "generated: every 4-thread program with one op each from {R,W,r,w,h,i0,i1}, every arrival order"},
    {"r:gen4x1",       3, {0,0}, {0,0}, {0,0}, {0,0}, ""},
    {"q:gen3x2",       2, {0,0}, {0,0}, {0,0}, {0,0}, "generated: 3 threads x up to 2 ops"},
    {"r:gen3x2",       2, {0,0}, {0,0}, {0,0}, {0,0}, ""},
};
const PmcConfig* pmc_configs(int* n) { *n = sizeof CFG / sizeof CFG[0]; return CFG; }
const char* pmc_property(void) { return "C06"; }
const char* pmc_target(void) { return "rw_xv"; }
int main(int argc, char** argv) { return pmc_main(argc, argv); }
