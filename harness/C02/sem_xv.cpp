// C02 sem_xv: photon semaphore under the controlled multi-vCPU scheduler.
// ops: w<m> wait(m)   W<m> wait_interruptible(m)   t<m> wait_interruptible(m, 40us)   s<n> signal(n)   i<k> interrupt thread k (EINTR)
//      D  wait(1) on a private on-"stack" semaphore, then destroy + poison it (the Awaiter<PhotonContext> pattern)
//      d<k> signal(1) the private semaphore of thread k          y photon yield
// '@' prefix = plain OS thread (signal only).
#define protected public
#define private public
#include <photon/thread/thread.h>
#undef protected
#undef private
#include "mv_prog.h"
#include <string.h>

using namespace photon;
static const uint64_t TMO = 40;
static const uint64_t FOREVER = 1000 * 1000;      // stand-in for "no timeout" in generated programs (virtual time)
static void judge_quiescence(const char* dump, bool final);

struct St {
    semaphore* sem; bool in_order; uint64_t init;
    uint64_t signalled = 0, taken = 0;
    mvprog::Prog prog;
    int blocked_demand[16] = {0};          // demand of thread k while it is inside a wait
    int interrupts[16] = {0};
    alignas(64) char priv_buf[16][128];    // private semaphores (placement new), poisoned after use
    semaphore* priv[16] = {nullptr};
    std::string log;                       // global completion order of ops
    std::atomic<int> priv_ready[16];
    uint64_t judged_jump = ~0ull; int nwaits = 0;
    bool gen = false;                      // generated program: "forever" is a 1 s stand-in so that every run ends and the runner process is reused
};
static St* G;

static void body(mvprog::PT& p) {
    const std::string& ops = p.ops;
    for (size_t i = 0; i < ops.size(); i++) {
        char op = ops[i];
        if (op == 'y') { thread_yield(); continue; }
        if (op == 'p') { int npad = pmc_choose(3, PMC_PROG, 0, "pad yields"); for (int kk = 0; kk < npad; kk++) thread_yield(); continue; }   // every arrival order on one vCPU
        if (op == 'q') { if (pmc_choose(2, PMC_PROG, 0, "pad yield")) thread_yield(); continue; }
        if (op == 'D') {
            auto s = new (G->priv_buf[p.idx]) semaphore(0);
            G->priv[p.idx] = s; G->priv_ready[p.idx] = 1;
            uint64_t sw0 = *(uint64_t*)&photon::get_vcpu()->switch_count;
            int r = s->wait(1);
            if (*(uint64_t*)&photon::get_vcpu()->switch_count != sw0) G->log += 'z';
            if (r != 0) pmc_violation("private-wait-failed", "wait(1) on private semaphore returned %d errno %d", r, errno);
            // wait() has returned: the waiter may destroy the semaphore immediately
            s->~semaphore();
            memset(G->priv_buf[p.idx], 0xdd, sizeof G->priv_buf[p.idx]);
            mv_poison(G->priv_buf[p.idx], sizeof G->priv_buf[p.idx]);
            p.result += "D"; G->log += "D";
            continue;
        }
        int n = ops[++i] - '0';
        if (op == 'd') { while (G->priv_ready[n].load() == 0) {} G->priv[n]->signal(1); p.result += "d"; G->log += "d"; continue; }
        if (op == 's') { pmc_log("  [+%llu] T%d signal(%d) count before=%llu", (unsigned long long)(mv_now() - MV_T0), p.idx, n, (unsigned long long)G->sem->count()); G->signalled += n; G->sem->signal(n); p.result += "s"; G->log += char('a' + p.idx); G->log += 's'; continue; }
        if (op == 'i') { if (n < (int)G->prog.pts.size() && G->prog.pts[n].th) { G->interrupts[n]++; thread_interrupt(G->prog.pts[n].th, EINTR); } p.result += "i"; continue; }
        // waits
        uint64_t t0 = mv_now();
        uint64_t sw0 = *(uint64_t*)&photon::get_vcpu()->switch_count;     // (cast: plain read, not a scheduling point)
        G->blocked_demand[p.idx] = n; int intr0 = G->interrupts[p.idx];
        pmc_log("  [+%llu] T%d %c%d begins, count=%llu", (unsigned long long)(mv_now() - MV_T0), p.idx, op, n, (unsigned long long)G->sem->count());
        errno = 0; int r;
        uint64_t forever = FOREVER + 10000ull * (G->nwaits++ % 50);      // distinct stand-in deadlines: two "forever" waits never expire together
        if (op == 'w') r = G->gen ? G->sem->wait(n, forever) : G->sem->wait(n);
        else if (op == 'W') r = G->gen ? G->sem->wait_interruptible(n, forever) : G->sem->wait_interruptible(n);
        else { mv_register_deadline(mv_now() + TMO); r = G->sem->wait_interruptible(n, TMO); }
        int e = errno;
        pmc_log("  [+%llu] T%d %c%d returns %d errno %d, count=%llu", (unsigned long long)(mv_now() - MV_T0), p.idx, op, n, r, e, (unsigned long long)G->sem->count());
        if (G->gen && r != 0 && e == ETIMEDOUT && op != 't') {
            // the stand-in for "forever" expired: virtual time only moves when nobody can run, so this is the quiescent state a real
            // program would be stuck in. Judge it exactly like a deadlock, then let the program go on.
            if (mv_now() < t0 + forever) pmc_violation("wait-failed-without-reason", "untimed wait returned ETIMEDOUT after %llu us", (unsigned long long)(mv_now() - t0));
            // only the first thread to run after the clock jumped sees the quiescent state itself
            if (G->judged_jump != mv_time_jumps() && mv_time_heur() == 0 && mv_time_devs() == 0) { G->judged_jump = mv_time_jumps(); judge_quiescence("stand-in timeout", false); }
            G->blocked_demand[p.idx] = 0;
            G->log += char('a' + p.idx); G->log += 'b'; p.result += "b";
            continue;
        }
        G->blocked_demand[p.idx] = 0;
        bool slept = *(uint64_t*)&photon::get_vcpu()->switch_count != sw0;
        G->log += char('a' + p.idx); G->log += (r == 0 ? '1' : '0'); if (slept) G->log += 'z';
        if (r == 0) { G->taken += n; p.result += "1"; }
        else {
            bool to = (e == ETIMEDOUT && op == 't' && mv_now() >= t0 + TMO);
            bool intr = (e == EINTR && G->interrupts[p.idx] && op != 'w');
            // an interrupt that was sent before this wait began belongs to an earlier sleep (or to none): it must not end this one (C04)
            if (intr && G->interrupts[p.idx] == intr0 && G->prog.nos == 1)
                pmc_violation("stale-interrupt-delivered", "op %c%d by thread %d returned -1/EINTR at +%llu us although no interrupt was sent to it during this wait", op, n, p.idx, (unsigned long long)(mv_now() - t0));
            if (!to && !intr) pmc_violation("wait-failed-without-reason", "op %c%d by thread %d returned -1 errno=%d at +%llu", op, n, p.idx, e, (unsigned long long)(mv_now() - t0));
            p.result += to ? "t" : "e";
        }
    }
}

static void ledger(const char* when) {
    uint64_t cnt = G->sem->count();
    if (G->init + G->signalled != G->taken + cnt)
        pmc_violation("token-conservation", "%s: init %llu + signalled %llu != taken %llu + count %llu", when, (unsigned long long)G->init,
                      (unsigned long long)G->signalled, (unsigned long long)G->taken, (unsigned long long)cnt);
}

static void judge_quiescence(const char* dump, bool final) {
    // nobody can run: every blocked waiter must be legitimately short of tokens
    uint64_t cnt = G->sem->count(); int nb = 0; int mn = 1 << 30, mx = 0;
    for (int k = 0; k < 16; k++) if (G->blocked_demand[k]) { nb++; mn = std::min(mn, G->blocked_demand[k]); mx = std::max(mx, G->blocked_demand[k]); }
    if (final) for (auto& p : G->prog.pts) if (!p.done && !G->blocked_demand[p.idx])
        pmc_violation("deadlock", "thread %d is stuck outside a semaphore wait: %s", p.idx, dump);
    if (!nb) { if (final) pmc_violation("deadlock", "nothing runnable: %s", dump); return; }
    // in-order: the head (unknown which of the blocked ones) is covered for sure if count >= the largest demand;
    // out-of-order: any waiter covered is a lost wake-up
    if ((G->in_order && cnt >= (uint64_t)mx) || (!G->in_order && cnt >= (uint64_t)mn))
        pmc_violation("lost-wakeup", "%d waiter(s) blocked forever (demands %d..%d) while count=%llu covers them (%s mode): %s", nb, mn, mx,
                      (unsigned long long)cnt, G->in_order ? "in-order" : "out-of-order", dump);
    ledger("blocked-quiescence");
}
static void on_deadlock(const char* dump) {
    judge_quiescence(dump, true);
    uint64_t cnt = G->sem->count(); int nb = 0; for (int k = 0; k < 16; k++) if (G->blocked_demand[k]) nb++;
    pmc_obs("%s blocked=%d count=%llu", G->prog.results().c_str(), nb, (unsigned long long)cnt);
    pmc_done();
}

// config "<init><i|o>:<prog>[:tdev]"
void pmc_run(const char* config) {
    St st; G = &st;
    int init; char mode; char prog[128]; char extra[16] = "";
    if (sscanf(config, "%d%c:%127[^:]:%15s", &init, &mode, prog, extra) < 3) pmc_broken("bad config %s", config);
    st.init = init; st.in_order = (mode == 'i');
    for (auto& a : st.priv_ready) a = 0;
    st.sem = new semaphore(init, st.in_order);
    pmc_window(1);     // generated programs are explorer choices
    if (st.prog.parse_or_generate(prog, {"w1", "w2", "W1", "t1", "t2", "s1", "s2", "i0", "i1"})) { st.gen = true; st.log = st.prog.generated + " "; }
    pmc_window(0);
    mv_init(); mvp::use_fast_stacks();
    mv_on_deadlock = on_deadlock;
    mv_time_deviations(strstr(extra, "tdev") != nullptr);
    if (strstr(extra, "plain")) mv_plain_region(st.sem, sizeof *st.sem);     // plain accesses to the semaphore object are scheduling points too
    mv_tso(strstr(extra, "tso") != nullptr); mv_switch_points(0);     // built with -DPHOTON_VERIF for the TSC hook only
    st.prog.run(body);
    ledger("end");
    pmc_obs("%s count=%llu order=%s", st.prog.results().c_str(), (unsigned long long)st.sem->count(), st.log.c_str());
    delete st.sem;
    mv_fini();
    G = nullptr;
}

static const PmcConfig CFG[] = {
    // name                   tiers  sched   time    env    total
    {"0i:w1|s1",              3, {2,3}, {0,0}, {0,0}, {0,0}, "one waiter, one cross-vCPU signaller"},
    {"0i:w1|@s1",             3, {2,3}, {0,0}, {0,0}, {0,0}, "signal from a plain OS thread"},
    {"0i:w1,w1|s2",           3, {1,2}, {0,0}, {0,0}, {0,0}, "two waiters, one signal(2)"},
    {"0i:w1,w1|s1s1",         3, {1,2}, {0,0}, {0,0}, {0,0}, ""},
    {"0i:w2,w1|s1s2",         3, {1,2}, {0,0}, {0,0}, {0,0}, "unequal demands, in-order"},
    {"0o:w2,w1|s1s2",         3, {1,2}, {0,0}, {0,0}, {0,0}, "unequal demands, out-of-order resume"},
    {"0i:t1|s1:tdev",         3, {1,2}, {1,1}, {0,0}, {2,3}, "timeout racing with signal"},
    {"0i:t1,w1|s1s1:tdev",    3, {1,2}, {1,1}, {0,0}, {2,2}, "a waiter times out while its successor must be resumed"},
    {"0i:t2,w1|s1:tdev",      3, {1,2}, {1,1}, {0,0}, {2,2}, "timed head waiter with the larger demand gives up: its successor is covered and must be resumed"},
    {"0i:pt2,pw1,ps1:tdev",   3, {0,0}, {1,1}, {0,0}, {0,0}, "same on one vCPU, every arrival order"},
    {"0i:pt3,pw2,pw1,ps1ps2:tdev", 2, {0,0}, {1,2}, {0,0}, {0,0}, ""},
    {"0i:W1,w1|s1,i0",        3, {1,2}, {0,0}, {0,0}, {0,0}, "interrupted head waiter must re-run the resume pass"},
    {"0i:W2,w1|s1,i0",        3, {1,2}, {0,0}, {0,0}, {0,0}, "interrupted head with larger demand: successor covered"},
    {"1i:w1,w1|s1",           3, {1,2}, {0,0}, {0,0}, {0,0}, "initial token"},
    {"0i:D|d0",               3, {2,3}, {0,0}, {0,0}, {0,0}, "destroy right after wait() returns (other vCPU signals)"},
    {"0i:D|@d0",              3, {2,3}, {0,0}, {0,0}, {0,0}, "destroy right after wait() returns (OS thread signals)"},
    {"0i:D,d0",               3, {0,0}, {0,0}, {0,0}, {0,0}, "same vCPU"},
    {"0i:pw1,pw1,ps1ps1",     3, {0,0}, {0,0}, {0,0}, {0,0}, "one vCPU, every arrival order"},
    {"0i:pW1,pw1,ps1,ppi0",   3, {0,0}, {0,0}, {0,0}, {0,0}, "one vCPU: interrupt before / after the resume"},
    {"0i:pt1,pw1,ps1ps1:tdev",3, {0,0}, {1,2}, {0,0}, {0,0}, "one vCPU: timeout vs signal in every order"},
    {"0o:pw2,pw1,ps1ps2",     3, {0,0}, {0,0}, {0,0}, {0,0}, "one vCPU, out-of-order resume"},
    {"1i:pw2,pt1,ps1,ppi1:tdev", 2, {0,0}, {1,2}, {0,0}, {0,0}, ""},
    {"0i:w1,t1|s1|s1:tdev",   2, {1,2}, {1,1}, {0,0}, {2,2}, "three vCPUs"},
    {"0o:w1,w2,w1|s2s2",      2, {1,2}, {0,0}, {0,0}, {0,0}, "ooo with three waiters"},
    {"0o:pW1w2,pw2w2,ps2W1",  3, {0,0}, {0,0}, {0,0}, {0,0}, "barging: a token meant for a resumed waiter is taken on the fast path; the rest must still reach a covered waiter"},
    {"0i:w1|s1:tso",          3, {1,2}, {0,0}, {1,1}, {2,3}, "x86-TSO store buffers"},
    {"0o:w2,w1|s1s2:tso",     3, {1,1}, {0,0}, {1,1}, {2,2}, ""},
    {"0i:w1|s1:plain",        3, {1,2}, {0,0}, {0,0}, {0,0}, "plain accesses to the semaphore object (wait queue links) are scheduling points too"},
    {"0o:w2,w1|s1s2:plain",   2, {1,1}, {0,0}, {0,0}, {0,0}, ""},
    {"0i:w1|@s1:tso",         2, {1,2}, {0,0}, {1,1}, {2,3}, ""},
    // generated programs last: they take whatever budget the configs above leave
    {"0i:gen3x1:tdev",        3, {0,0}, {0,1}, {0,0}, {0,0}, "generated: every 3-thread program with one op each from {w1,w2,W1,t1,t2,s1,s2,i0,i1}, every arrival order, a timeout anywhere"},
    {"0i:gen2x2:tdev",        3, {0,0}, {0,1}, {0,0}, {0,0}, "generated: 2 threads x up to 2 ops"},
    {"0o:gen3x1:tdev",        3, {0,0}, {0,1}, {0,0}, {0,0}, "out-of-order mode"},
    {"1i:gen3x2",             2, {0,0}, {0,0}, {0,0}, {0,0}, "generated: 3 threads x up to 2 ops"},
    {"0o:gen3x2",             2, {0,0}, {0,0}, {0,0}, {0,0}, ""},
    {"0i:gen2x3+:tdev",       2, {0,0}, {1,1}, {0,0}, {0,0}, ""},
};
const PmcConfig* pmc_configs(int* n) { *n = sizeof CFG / sizeof CFG[0]; return CFG; }
const char* pmc_property(void) { return "C02"; }
const char* pmc_target(void) { return "sem_xv"; }
int main(int argc, char** argv) { return pmc_main(argc, argv); }
