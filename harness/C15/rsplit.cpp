// C15 rsplit: range_split / range_split_power2 / range_split_vi, complete enumeration over a scaled alphabet.
// Reference model: walk the byte range block by block.
#include "seqx.h"
#include <photon/fs/range-split.h>
#include <photon/fs/range-split-vi.h>
#include <vector>
#include <string>
using namespace photon::fs;

struct Part { uint64_t i, off, len; };

// reference: blocks given by start(i) and len(i)
template<class StartF, class LenF, class IndexF>
static std::vector<Part> ref_split(uint64_t offset, uint64_t length, StartF start, LenF blen, IndexF index_of) {
    std::vector<Part> r;
    uint64_t pos = offset, end = offset + length;
    while (pos < end) {
        uint64_t i = index_of(pos);
        uint64_t bs = start(i), bl = blen(i);
        uint64_t take = std::min(end, bs + bl) - pos;
        r.push_back({i, pos - bs, take});
        pos += take;
    }
    return r;
}

template<class RS, class StartF, class LenF, class IndexF>
static void check_one(seqx::Ctx& c, const RS& rs, uint64_t offset, uint64_t length, StartF start, LenF blen, IndexF index_of, bool fixed_interval = true) {
    std::vector<Part> ref = ref_split(offset, length, start, blen, index_of);
    // all_parts()
    std::vector<Part> got; int guard = 0;
    for (auto& x : rs.all_parts()) { got.push_back({x.i, x.offset, x.length}); if (++guard > 64) { c.fail("all_parts-endless", "more than 64 parts"); return; } }
    uint64_t cls = seqx::mix(seqx::mix(seqx::mix(rs.begin_remainder == 0, rs.end_remainder == 0), std::min<size_t>(ref.size(), 4)), (bool)rs.small_note * 4 + (bool)rs.preface * 2 + (bool)rs.postface);
    c.cls(seqx::mix(cls, length == 0 ? 0 : length == 1 ? 1 : 2));
    if (length == 0) {
        for (auto& p : got) if (p.len) { c.fail("empty-range-nonempty-part", "part (%llu,%llu,%llu)", (unsigned long long)p.i, (unsigned long long)p.off, (unsigned long long)p.len); return; }
        return;
    }
    if (got.size() != ref.size()) { c.fail("all_parts-count", "got %zu parts, reference %zu", got.size(), ref.size()); return; }
    for (size_t k = 0; k < ref.size(); k++) {
        if (got[k].i != ref[k].i || got[k].off != ref[k].off || got[k].len != ref[k].len) {
            c.fail("all_parts-mismatch", "part %zu: got (%llu,%llu,%llu) reference (%llu,%llu,%llu)", k, (unsigned long long)got[k].i, (unsigned long long)got[k].off,
                   (unsigned long long)got[k].len, (unsigned long long)ref[k].i, (unsigned long long)ref[k].off, (unsigned long long)ref[k].len);
            return;
        }
        if (got[k].len == 0) { c.fail("empty-part", "part %zu is empty", k); return; }
        if (got[k].off + got[k].len > blen(got[k].i)) { c.fail("part-crosses-block", "part %zu", k); return; }
    }
    // classification reproduces the same list
    std::vector<Part> cl;
    if (rs.small_note) cl.push_back({rs.small_note.i, rs.small_note.offset, rs.small_note.length});
    else {
        if (rs.preface) cl.push_back({rs.preface.i, rs.preface.offset, rs.preface.length});
        guard = 0;
        for (auto& x : rs.aligned_parts()) { cl.push_back({x.i, x.offset, x.length}); if (++guard > 64) { c.fail("aligned_parts-endless", "more than 64"); return; } }
        if (rs.postface) cl.push_back({rs.postface.i, rs.postface.offset, rs.postface.length});
    }
    bool same = cl.size() == ref.size();
    for (size_t k = 0; same && k < ref.size(); k++) same = cl[k].i == ref[k].i && cl[k].off == ref[k].off && cl[k].len == ref[k].len;
    if (!same) { c.fail("classification-mismatch", "small_note/preface/aligned/postface give %zu parts vs %zu", cl.size(), ref.size()); return; }
    // the classes are what their definitions say (range-split.h): small_note = the only part, begin and end both unaligned; preface = first
    // part, unaligned begin, reaching its block's end (and not the small note); postface = last part, aligned begin, unaligned end;
    // aligned parts = whole blocks
    {
        uint64_t endx = offset + length;
        bool b_unal = ref.front().off != 0, e_unal = ref.back().off + ref.back().len != blen(ref.back().i);
        bool want_small = ref.size() == 1 && b_unal && e_unal;
        bool want_pre = !want_small && b_unal, want_post = !want_small && e_unal;
        if ((bool)rs.small_note != want_small) { c.fail("class-small_note", "small_note present=%d, by definition %d (range [%llu,%llu))", (int)(bool)rs.small_note, (int)want_small, (unsigned long long)offset, (unsigned long long)endx); return; }
        if (!want_small) {
            if ((bool)rs.preface != want_pre) { c.fail("class-preface", "preface present=%d, by definition %d (range [%llu,%llu))", (int)(bool)rs.preface, (int)want_pre, (unsigned long long)offset, (unsigned long long)endx); return; }
            if ((bool)rs.postface != want_post) { c.fail("class-postface", "postface present=%d, by definition %d (range [%llu,%llu))", (int)(bool)rs.postface, (int)want_post, (unsigned long long)offset, (unsigned long long)endx); return; }
            guard = 0;
            for (auto& x : rs.aligned_parts()) { if (x.offset != 0 || x.length != blen(x.i)) { c.fail("aligned-part-not-a-whole-block", "part (%llu,%llu,%llu)", (unsigned long long)x.i, (unsigned long long)x.offset, (unsigned long long)x.length); return; } if (++guard > 64) break; }
        }
    }
    // aligned begin/end enclose the range with < one block of slack
    uint64_t ab = rs.aligned_begin_offset(), ae = rs.aligned_end_offset();
    uint64_t end = offset + length;
    if (!(ab <= offset && offset - ab < blen(index_of(offset)))) { c.fail("aligned-begin", "aligned_begin_offset=%llu offset=%llu", (unsigned long long)ab, (unsigned long long)offset); return; }
    if (!(ae >= end && ae - end < blen(index_of(end - 1)))) { c.fail("aligned-end", "aligned_end_offset=%llu end=%llu", (unsigned long long)ae, (unsigned long long)end); return; }
    // aligned_length() is multiply(aend-abegin): only meaningful for fixed intervals, and not part of the property statement
    if (fixed_interval && rs.aligned_length() != ae - ab) { c.fail("aligned-length", "aligned_length"); return; }
    if (rs.is_aligned() != (offset == ab && end == ae)) { c.fail("is_aligned", "is_aligned()=%d", (int)rs.is_aligned()); return; }
}

static void seqx_enumerate(seqx::Ctx& c, bool thorough) {
    // 1. arbitrary interval
    uint64_t maxI = thorough ? 12 : 9;
    for (uint64_t I = 1; I <= maxI; I++)
        for (uint64_t off = 0; off <= 3 * I + 2; off++)
            for (uint64_t len = 0; len <= 3 * I + 2; len++) {
                if (!c.begin("range_split(off=%llu,len=%llu,interval=%llu)", (unsigned long long)off, (unsigned long long)len, (unsigned long long)I)) continue;
                range_split rs(off, len, I);
                check_one(c, rs, off, len, [&](uint64_t i) { return i * I; }, [&](uint64_t) { return I; }, [&](uint64_t x) { return x / I; });
            }
    // 2. power of two, small: complete
    for (int k = 0; k <= (thorough ? 5 : 4); k++) {
        uint64_t I = 1ull << k;
        for (uint64_t off = 0; off <= 3 * I + 2; off++)
            for (uint64_t len = 0; len <= 3 * I + 2; len++) {
                if (!c.begin("range_split_power2(off=%llu,len=%llu,interval=%llu)", (unsigned long long)off, (unsigned long long)len, (unsigned long long)I)) continue;
                range_split_power2 rs(off, len, I);
                check_one(c, rs, off, len, [&](uint64_t i) { return i * I; }, [&](uint64_t) { return I; }, [&](uint64_t x) { return x / I; });
            }
    }
    // 3. power of two, large: every boundary relation, translated by multiples of the interval
    for (int k : {20, 32, 62}) {
        uint64_t I = 1ull << k;
        std::vector<uint64_t> d = {0, 1, 2, I / 2, I - 2, I - 1};
        std::vector<uint64_t> offs, lens;
        for (uint64_t m = 0; m <= (k == 62 ? 1u : 2u); m++) for (auto x : d) offs.push_back(m * I + x);
        for (uint64_t m = 0; m <= (k == 62 ? 1u : 2u); m++) for (auto x : d) lens.push_back(m * I + x);
        if (k != 62) lens.push_back(3 * I);
        for (auto off : offs) for (auto len : lens) {
            if (k == 62 && off + len > 3 * I) continue;     // keep end + interval below 2^64 (rounding up must not wrap)
            if (!c.begin("range_split_power2(off=%llu,len=%llu,interval=2^%d)", (unsigned long long)off, (unsigned long long)len, k)) continue;
            range_split_power2 rs(off, len, I);
            check_one(c, rs, off, len, [&](uint64_t i) { return i * I; }, [&](uint64_t) { return I; }, [&](uint64_t x) { return x / I; });
        }
    }
    // 4. variable intervals: every key-point list with gaps from {1,2,3}, up to 4 finite blocks, then the open block
    int maxb = thorough ? 5 : 4;
    for (int nb = 1; nb <= maxb; nb++) {
        int combos = 1; for (int i = 0; i < nb; i++) combos *= 3;
        for (int code = 0; code < combos; code++) {
            std::vector<uint64_t> kp = {0}; int cc = code; std::string desc;
            for (int i = 0; i < nb; i++) { uint64_t g = 1 + cc % 3; cc /= 3; kp.push_back(kp.back() + g); desc += char('0' + g); }
            uint64_t total = kp.back();
            kp.push_back(UINT64_MAX);
            auto index_of = [&](uint64_t x) { size_t i = 0; while (kp[i + 1] <= x) i++; return (uint64_t)i; };
            for (uint64_t off = 0; off <= total + 2; off++)
                for (uint64_t len = 0; len <= total + 2; len++) {
                    if (!c.begin("range_split_vi(off=%llu,len=%llu,gaps=%s)", (unsigned long long)off, (unsigned long long)len, desc.c_str())) continue;
                    range_split_vi rs(off, len, kp.data(), kp.size());
                    check_one(c, rs, off, len, [&](uint64_t i) { return kp[i]; }, [&](uint64_t i) { return kp[i + 1] - kp[i]; }, index_of, false);
                }
        }
    }
}

SEQX_MAIN("C15", "rsplit", "complete enumeration of (offset, length, interval) for range_split (interval 1..9/12), range_split_power2 (2^0..2^4/5 complete; 2^20, 2^32, 2^62 over all boundary relations) and range_split_vi (all key-point lists with gaps in {1,2,3}, <=4/5 blocks); reference = byte-wise walk; distinct = (begin aligned, end aligned, #blocks spanned capped at 4, small_note/preface/postface presence, length class)")
