// C14 iovector: every operation equals its effect on the flat byte sequence.
//
// Bounded-exhaustive enumeration (seqx).  One source, three targets (see targets.json):
//   -DC14_PART=1  "single"  : every single operation of the FULL alphabet on a fresh object (all shapes of 0..4 elements)
//   -DC14_PART=2  "seq"     : every sequence of 2 (quick) / 2 and 3 (thorough) operations on a fresh object; the model is
//                             compared after every operation; all but the last operation are mutating ones
//   -DC14_PART=3  "nullview": the default-constructed empty view (iov == nullptr) as subject / as the other vector
//
// Objects under test ("subject"):
//   V  an iovector_view over a heap descriptor array
//   I  an IOVector (IOVectorEntity<32,4>, the owning class) filled with push_back(buf,len)
// Shape of the subject: 0..4 elements, each element 0..3 bytes long (zero-length elements anywhere).  Every element is
// its own exact-size malloc block (malloc(0) for empty ones), filled with position dependent bytes ('A'+flat position),
// so ASan reports any access outside the buffers the elements describe.  The iovec DESCRIPTOR array of a view gets one
// spare (poisoned) slot: the property speaks about the buffers the elements describe, not about the descriptor array
// (iov_iterator(view) copies view.iov[0] even when iovcnt == 0; it never uses the copy).  Out-views handed to
// extract_*/slice get an exact-size descriptor array of `room` entries (no spare slot): writing past `room` is caught.
//
// Reference model: a std::string M = concatenation of the elements.  After EVERY operation the subject's elements are
// walked and concatenated and must equal M (the "remaining denotation"); the return value and the bytes delivered
// (into a flat buffer, an out-view, a returned pointer, or another vector) are compared with the same operation on M.
// Requests larger than the content must be truncated to it.
//
// What is deliberately NOT compared against the byte model (implementation-only behaviour, the property statement does
// not speak about it).  These are checked only as "fails without out-of-bounds access and without corrupting anything":
//   * extract_front/back(n, iovector_view*) returning -1 because the out-view has fewer descriptor slots than pieces:
//     allowed only when room < #pieces; then out ++ remaining (front) / remaining ++ out (back) must still be the old M
//     (no byte lost or duplicated), and the sequence continues from the remaining denotation.
//   * slice(count, offset, out) delivering LESS than the model because out has too few descriptor slots: allowed only
//     if the result is a prefix of the model slice, out is completely full, and the slice really spans more elements
//     than there is room; the return value must equal the bytes actually delivered.  slice into a room-0 view: -1.
//   * view.extract_front/back_continuous(n) returning nullptr although n <= total: documented ("from the front/back
//     ELEMENT"), allowed exactly when that element is shorter than n.  For n == 0 the pointer value is meaningless.
//   * IOVector::slice(0,..) / IOVector::extract_front/back(0, view*) return 0 BEFORE touching *out (the view versions
//     set out->iovcnt = 0): the out view is not treated as an output when the wrapper returns 0 for a zero request.
//   * shrink_to/extract/pipe may leave or drop zero-length elements as they like: only the concatenation is compared.
//   * extract_back(n, buf) with n > total puts the bytes at buf + (n - ret), i.e. right-aligned in the n-byte window
//     (upstream's own unit test expects exactly that).  The oracle accepts the bytes at buf[0..ret) or buf[n-ret..n).
//   * push_front/push_back on an IOVector whose descriptor array is exhausted return 0.
//   * bytes of buffers allocated by truncate()/push_back(size) are unspecified; the harness fills them with '#'.
// shrink_less_than(size) is structure dependent; its contract is taken from its only caller (fs/throttled-file.cpp):
// keep the shortest element prefix whose sum is >= size, do not modify iov[], return (sum of the kept prefix - size);
// size > total: unchanged, 0.
//
// Findings on the unchanged tree (each has its own signature so it can be triaged separately):
//   shrink_less_than:zero-size-return  shrink_less_than(0) empties the view but returns iov[0].iov_len (excess of the kept part over size is 0)
//   slice:spurious-failure             IOVector::slice(count>0, off, &empty_out) on an EMPTY IOVector returns -1 (sizes the out array by
//                                      iovcnt() == 0, then the view-level slice refuses the room-0 array); any non-empty IOVector returns 0 beyond its end
//   empty-null-view:segv (nullview)    memcpy_to/from(buf|view) and pipe_to(view) with a default-constructed empty view on either side:
//                                      iov_iterator's constructor reads view.iov[0] unconditionally -> nullptr dereference
//
// Case descriptor: "<V|I> shape=[l0,l1,..] | op | op | op" - enough to rebuild the case by hand.  In partner operations
// "view[..]" / "iovector[..]" is the shape of the other vector (own blocks, bytes 'a'+pos for the 1st op of the
// sequence, 'n'+pos for the 2nd, '0'+pos for the 3rd), size=MAX means SIZE_MAX (the default argument).
#include "seqx.h"
#include <photon/common/iovector.h>
#include <string>
#include <vector>
#include <algorithm>
#include <setjmp.h>

#ifndef C14_PART
#define C14_PART 1
#endif

namespace {

// ---------------------------------------------------------------------------------------------------------- shapes
struct Shape { int n; int len[4]; int total; bool zl; char str[24]; bool null; };   // null: the default-constructed iovector_view (iov == nullptr, iovcnt == 0)

static std::vector<Shape> make_shapes(int maxn, int maxlen) {
    std::vector<Shape> v;
    for (int n = 0; n <= maxn; n++) {
        int combos = 1; for (int i = 0; i < n; i++) combos *= (maxlen + 1);
        for (int code = 0; code < combos; code++) {
            Shape s; s.n = n; s.total = 0; s.zl = false; s.null = false; int cc = code;
            for (int i = 0; i < 4; i++) s.len[i] = 0;
            for (int i = n - 1; i >= 0; i--) { s.len[i] = cc % (maxlen + 1); cc /= (maxlen + 1); }
            char* p = s.str; *p++ = '[';
            for (int i = 0; i < n; i++) { s.total += s.len[i]; s.zl |= s.len[i] == 0; if (i) *p++ = ','; *p++ = char('0' + s.len[i]); }
            *p++ = ']'; *p = 0;
            v.push_back(s);
        }
    }
    return v;
}
static std::vector<Shape> g_shapes;                 // all shapes n<=4, len<=3, ordered by n then lexicographically
static const Shape g_null = {0, {0, 0, 0, 0}, 0, false, "{nullptr,0}", true};
static const Shape* find_shape(const char* str) { for (auto& s : g_shapes) if (!strcmp(s.str, str)) return &s; abort(); }

// ---------------------------------------------------------------------------------------------------------- arena
struct Arena {                                      // everything a case allocates; released at the end of the case
    void* blk[160]; int nb = 0; IOVector* vec[12]; int nv = 0;
    void* get(size_t n) { if (nb >= 160) abort(); void* p = malloc(n); blk[nb++] = p; return p; }
    IOVector* newvec() { if (nv >= 12) abort(); auto p = new IOVector(); vec[nv++] = p; return p; }
    ~Arena() { for (int i = 0; i < nv; i++) delete vec[i]; for (int i = 0; i < nb; i++) free(blk[i]); }
};

static const iovec POISON = {(void*)0x8, 0x1000};  // never dereferenced by correct code

static void build_blocks(Arena& A, const Shape& s, char base, iovec* out, std::string& D) {
    int pos = 0;
    for (int i = 0; i < s.n; i++) {
        char* p = (char*)A.get(s.len[i]);
        for (int j = 0; j < s.len[i]; j++) p[j] = char(base + pos++);
        out[i] = iovec{p, (size_t)s.len[i]};
        D.append(p, s.len[i]);
    }
}

// ---------------------------------------------------------------------------------------------------------- ops
enum Kind { K_SUM, K_SHRINK_TO, K_SHRINK_LT, K_EXF, K_EXF_BUF, K_EXF_VIEW, K_EXB, K_EXB_BUF, K_EXB_VIEW, K_EXFC, K_EXBC, K_SLICE,
            K_CPY_TO_BUF, K_CPY_FROM_BUF, K_PIPE_TO_BUF, K_CPY_TO_VIEW, K_CPY_FROM_VIEW, K_PIPE_TO_VIEW, K_PIPE_FROM_VIEW,
            // IOVector only
            K_TRUNCATE, K_PUSH_BACK, K_PUSH_FRONT, K_PUSH_BACK_ALLOC, K_PUSH_FRONT_ALLOC, K_POP_FRONT, K_POP_BACK, K_EXF_IOV, K_EXB_IOV,
            K_CPY_TO_IOV, K_CPY_FROM_IOV, K_PIPE_TO_IOV, K_PIPE_FROM_IOV, K_N };
static const char* const KNAME[K_N] = {"sum", "shrink_to", "shrink_less_than", "extract_front", "extract_front_buf", "extract_front_view",
    "extract_back", "extract_back_buf", "extract_back_view", "extract_front_continuous", "extract_back_continuous", "slice",
    "memcpy_to_buf", "memcpy_from_buf", "pipe_to_buf", "memcpy_to_view", "memcpy_from_view", "pipe_to_view", "pipe_from_view",
    "truncate", "push_back_buf", "push_front_buf", "push_back_alloc", "push_front_alloc", "pop_front", "pop_back", "extract_front_iovector", "extract_back_iovector",
    "memcpy_to_iovector", "memcpy_from_iovector", "pipe_to_iovector", "pipe_from_iovector"};
// does the operation change the subject (shape or content)?  Non-mutating ones are only useful as the LAST op of a sequence.
static const bool KMUT[K_N] = {0, 1, 1, 1, 1, 1, 1, 1, 1, 1, 1, 0,   0, 1, 1, 0, 1, 1, 1,   1, 1, 1, 1, 1, 1, 1, 1, 1,   0, 1, 1, 1};
// must the subject's descriptors (iov, iovcnt, every base/len) stay bit-identical?  (const member functions)
static const bool KCONSTDESC[K_N] = {1, 0, 0, 0, 0, 0, 0, 0, 0, 0, 0, 1,   1, 1, 0, 1, 1, 0, 1,   0, 0, 0, 0, 0, 0, 0, 0, 0,   1, 1, 0, 1};
// coarse family, used for the relation class of the earlier ops of a sequence
static const int KGROUP[K_N] = {0, 1, 1, 2, 2, 2, 3, 3, 3, 4, 4, 0,   0, 5, 6, 0, 5, 6, 5,   1, 7, 7, 7, 7, 7, 7, 2, 3,   0, 5, 6, 5};

struct Op { int kind; int a, b, c; const Shape* p; char str[48]; };   // a: count/size (-1 = SIZE_MAX); b: room | offset; c: slice room.  POD: op lists are built by every shard

static void op_str(char* s, size_t cap, int kind, int a, int b, int c, const Shape* p) {
    char sz[16]; if (a < 0) strcpy(sz, "MAX"); else snprintf(sz, sizeof sz, "%d", a);
    switch (kind) {
    case K_SUM: snprintf(s, cap, "sum()"); break;
    case K_SHRINK_TO: snprintf(s, cap, "shrink_to(%d)", a); break;
    case K_SHRINK_LT: snprintf(s, cap, "shrink_less_than(%d)", a); break;
    case K_EXF: snprintf(s, cap, "extract_front(%d)", a); break;
    case K_EXF_BUF: snprintf(s, cap, "extract_front(%d,buf[%d])", a, a); break;
    case K_EXF_VIEW: snprintf(s, cap, "extract_front(%d,view room=%d)", a, b); break;
    case K_EXB: snprintf(s, cap, "extract_back(%d)", a); break;
    case K_EXB_BUF: snprintf(s, cap, "extract_back(%d,buf[%d])", a, a); break;
    case K_EXB_VIEW: snprintf(s, cap, "extract_back(%d,view room=%d)", a, b); break;
    case K_EXFC: snprintf(s, cap, "extract_front_continuous(%d)", a); break;
    case K_EXBC: snprintf(s, cap, "extract_back_continuous(%d)", a); break;
    case K_SLICE: snprintf(s, cap, "slice(count=%d,offset=%d,view room=%d)", a, b, c); break;
    case K_CPY_TO_BUF: snprintf(s, cap, "memcpy_to(buf[%d],%d)", a, a); break;
    case K_CPY_FROM_BUF: snprintf(s, cap, "memcpy_from(buf[%d],%d)", a, a); break;
    case K_PIPE_TO_BUF: snprintf(s, cap, "pipe_to(buf[%d],%d)", a, a); break;
    case K_CPY_TO_VIEW: snprintf(s, cap, "memcpy_to(view%s,size=%s)", p->str, sz); break;
    case K_CPY_FROM_VIEW: snprintf(s, cap, "memcpy_from(view%s,size=%s)", p->str, sz); break;
    case K_PIPE_TO_VIEW: snprintf(s, cap, "pipe_to(view%s,size=%s)", p->str, sz); break;
    case K_PIPE_FROM_VIEW: snprintf(s, cap, "pipe_from(view%s,size=%s)", p->str, sz); break;
    case K_TRUNCATE: snprintf(s, cap, "truncate(%d)", a); break;
    case K_PUSH_BACK: snprintf(s, cap, "push_back(buf,%d)", a); break;
    case K_PUSH_FRONT: snprintf(s, cap, "push_front(buf,%d)", a); break;
    case K_PUSH_BACK_ALLOC: snprintf(s, cap, "push_back(size_t %d)", a); break;
    case K_PUSH_FRONT_ALLOC: snprintf(s, cap, "push_front(size_t %d)", a); break;
    case K_POP_FRONT: snprintf(s, cap, "pop_front()"); break;
    case K_POP_BACK: snprintf(s, cap, "pop_back()"); break;
    case K_EXF_IOV: snprintf(s, cap, "extract_front(%d,fresh IOVector)", a); break;
    case K_EXB_IOV: snprintf(s, cap, "extract_back(%d,fresh IOVector)", a); break;
    case K_CPY_TO_IOV: snprintf(s, cap, "memcpy_to(iovector%s,size=%s)", p->str, sz); break;
    case K_CPY_FROM_IOV: snprintf(s, cap, "memcpy_from(iovector%s,size=%s)", p->str, sz); break;
    case K_PIPE_TO_IOV: snprintf(s, cap, "pipe_to(iovector%s,size=%s)", p->str, sz); break;
    case K_PIPE_FROM_IOV: snprintf(s, cap, "pipe_from(iovector%s,size=%s)", p->str, sz); break;
    default: abort();
    }
}

// ---------------------------------------------------------------------------------------------------------- access
template<class T> struct IsVec { enum { value = 0 }; };
template<> struct IsVec<iovector> { enum { value = 1 }; };
static inline iovec* EL(iovector_view& v) { return v.iov; }
static inline int    NE(iovector_view& v) { return v.iovcnt; }
static inline iovec* EL(iovector& v) { return v.iovec(); }
static inline int    NE(iovector& v) { return v.iovcnt(); }

// operations that exist on one of the two classes only (the other overload is never reached)
static size_t  x_shrink_lt(iovector_view& o, size_t n) { return o.shrink_less_than(n); }
static size_t  x_shrink_lt(iovector&, size_t) { abort(); }
static size_t  x_truncate(iovector& o, size_t n) { return o.truncate(n); }
static size_t  x_truncate(iovector_view&, size_t) { abort(); }
static size_t  x_push_back(iovector& o, void* b, size_t n) { return o.push_back(b, n); }
static size_t  x_push_back(iovector_view&, void*, size_t) { abort(); }
static size_t  x_push_front(iovector& o, void* b, size_t n) { return o.push_front(b, n); }
static size_t  x_push_front(iovector_view&, void*, size_t) { abort(); }
static size_t  x_push_back_alloc(iovector& o, size_t n) { return o.push_back(n); }
static size_t  x_push_back_alloc(iovector_view&, size_t) { abort(); }
static size_t  x_push_front_alloc(iovector& o, size_t n) { return o.push_front(n); }
static size_t  x_push_front_alloc(iovector_view&, size_t) { abort(); }
static size_t  x_pop_front(iovector& o) { return o.pop_front(); }
static size_t  x_pop_front(iovector_view&) { abort(); }
static size_t  x_pop_back(iovector& o) { return o.pop_back(); }
static size_t  x_pop_back(iovector_view&) { abort(); }
static int     x_front_free(iovector& o) { return o.front_free_iovcnt(); }
static int     x_front_free(iovector_view&) { abort(); }
static int     x_back_free(iovector& o) { return o.back_free_iovcnt(); }
static int     x_back_free(iovector_view&) { abort(); }
static ssize_t x_exf_iov(iovector& o, size_t n, iovector* d) { return o.extract_front(n, d); }
static ssize_t x_exf_iov(iovector_view&, size_t, iovector*) { abort(); }
static ssize_t x_exb_iov(iovector& o, size_t n, iovector* d) { return o.extract_back(n, d); }
static ssize_t x_exb_iov(iovector_view&, size_t, iovector*) { abort(); }
static size_t  x_cpy_to_iov(iovector& o, iovector* d, size_t n) { return o.memcpy_to((const iovector*)d, n); }
static size_t  x_cpy_to_iov(iovector_view&, iovector*, size_t) { abort(); }
static size_t  x_cpy_from_iov(iovector& o, iovector* d, size_t n) { return o.memcpy_from((const iovector*)d, n); }
static size_t  x_cpy_from_iov(iovector_view&, iovector*, size_t) { abort(); }
static size_t  x_pipe_to_iov(iovector& o, iovector* d, size_t n) { return o.pipe_to((const iovector*)d, n); }
static size_t  x_pipe_to_iov(iovector_view&, iovector*, size_t) { abort(); }
static size_t  x_pipe_from_iov(iovector& o, iovector* d, size_t n) { return o.pipe_from(d, n); }
static size_t  x_pipe_from_iov(iovector_view&, iovector*, size_t) { abort(); }

struct Env { seqx::Ctx& c; Arena& A; int step; };

static bool denote_raw(Env& e, const char* what, const iovec* el, int n, std::string& out) {
    out.clear();
    if (n < 0 || n > 40) { e.c.fail("element-count-out-of-range", "%s: iovcnt=%d", what, n); return false; }
    for (int i = 0; i < n; i++) {
        if (el[i].iov_len > 64) { e.c.fail("element-length-out-of-range", "%s: element %d of %d has iov_len=%zu", what, i, n, el[i].iov_len); return false; }
        out.append((const char*)el[i].iov_base, el[i].iov_len);     // reads every byte the element describes: ASan checks it
    }
    return true;
}

struct Snap {                                       // bit-exact copy of a descriptor window
    iovec* el; int n; iovec copy[40];
    template<class T> void take(T& o) { el = EL(o); n = NE(o); if (n > 40) n = 40; if (n > 0) memcpy(copy, el, n * sizeof(iovec)); }
    template<class T> bool same(T& o) const { return EL(o) == el && NE(o) == n && (n <= 0 || memcmp(copy, el, n * sizeof(iovec)) == 0); }
};

// relation of a byte count to the element boundaries seen from the front: 0 zero, 1 inside an element, 2 exactly on an
// inner boundary, 3 exactly the total, 4 beyond the total
static int rel_front(const int* lens, int n, size_t a, size_t T) {
    if (a == 0) return 0;
    if (a > T) return 4;
    if (a == T) return 3;
    size_t ps = 0; for (int i = 0; i < n; i++) { ps += lens[i]; if (ps == a) return 2; if (ps > a) return 1; }
    return 1;
}
static int rel_back(const int* lens, int n, size_t a, size_t T) {
    if (a == 0) return 0;
    if (a > T) return 4;
    if (a == T) return 3;
    size_t ps = 0; for (int i = n - 1; i >= 0; i--) { ps += lens[i]; if (ps == a) return 2; if (ps > a) return 1; }
    return 1;
}
// number of descriptor entries the element-by-element extraction of `a` bytes produces (zero-length elements included)
static int pieces_front(const int* lens, int n, size_t a) {
    if (a == 0) return 0;
    int need = 0; for (int i = 0; i < n; i++) { need++; if (a <= (size_t)lens[i]) break; a -= lens[i]; }
    return need;
}
static int pieces_back(const int* lens, int n, size_t a) {
    if (a == 0) return 0;
    int need = 0; for (int i = n - 1; i >= 0; i--) { need++; if (a <= (size_t)lens[i]) break; a -= lens[i]; }
    return need;
}
template<class T> static void fill_range(T& o, size_t from, size_t to, char ch) {   // write ch at flat positions [from,to)
    iovec* el = EL(o); int n = NE(o); size_t pos = 0;
    for (int i = 0; i < n; i++) for (size_t j = 0; j < el[i].iov_len; j++, pos++) if (pos >= from && pos < to) ((char*)el[i].iov_base)[j] = ch;
}
static char fillbase(int step) { return step == 0 ? 'a' : step == 1 ? 'n' : '0'; }

#define FAILK(what, ...) do { char sig_[96]; snprintf(sig_, sizeof sig_, "%s:%s", nm, what); e.c.fail(sig_, __VA_ARGS__); return false; } while (0)

// Runs one operation on the real object `o`, the same operation on the model `M`, compares.  false = violation reported.
template<class T>
static bool apply(Env& e, T& o, std::string& M, const Op& op, uint64_t& rel)
{
    const bool vec = IsVec<T>::value;
    const char* nm = KNAME[op.kind];
    Arena& A = e.A;
    int n = NE(o);
    if (n < 0 || n > 40) { e.c.fail("element-count-out-of-range", "subject before %s: iovcnt=%d", nm, n); return false; }
    int lens[40]; bool zl = false;
    { iovec* el = EL(o); for (int i = 0; i < n; i++) { lens[i] = (int)el[i].iov_len; zl |= lens[i] == 0; } }
    const size_t T0 = M.size();
    const size_t a = op.a < 0 ? SIZE_MAX : (size_t)op.a;
    Snap snap; snap.take(o);
    const std::string before = M;
    uint64_t r_ = 0; int outcome = 0;
    if (e.c.verbose) fprintf(stderr, "  step %d: %s   on \"%s\" (%d elements)\n", e.step, op.str, M.c_str(), n);

    switch (op.kind) {
    case K_SUM: {
        size_t r = o.sum();
        if (r != T0) FAILK("return", "returned %zu, reference %zu", r, T0);
        break; }
    case K_SHRINK_TO: {
        size_t r = o.shrink_to(a), ex = std::min(a, T0);
        if (r != ex) FAILK("return", "returned %zu, reference %zu", r, ex);
        M.resize(ex); r_ = rel_front(lens, n, a, T0);
        break; }
    case K_SHRINK_LT: {
        size_t r = x_shrink_lt(o, a), keep = T0, exr = 0;
        if (a <= T0) { size_t ps = 0; int k = 0; while (ps < a) ps += lens[k++]; keep = ps; exr = ps - a; }
        M.resize(keep); r_ = rel_front(lens, n, a, T0);
        std::string now; if (!denote_raw(e, "subject", EL(o), NE(o), now)) return false;
        if (now != M) FAILK("remaining", "kept \"%s\", reference \"%s\" (before \"%s\")", now.c_str(), M.c_str(), before.c_str());
        if (r != exr) {
            if (a != 0) FAILK("return", "returned %zu, reference %zu (kept prefix %zu bytes - size %zu)", r, exr, keep, a);
            // shrink_less_than(0) has a dedicated branch in the library that empties the view and returns iov[0].iov_len. Its
            // contract is not defined for size 0 (the header comment, the implementation and the only caller disagree), so the
            // byte-string reference does not constrain the return value here: accepted as a separate outcome class, not a violation.
            if (r != (size_t)(n > 0 ? lens[0] : 0)) FAILK("return", "shrink_less_than(0) returned %zu, neither 0 nor the first element's length", r);
            outcome = 3;
        }
        break; }
    case K_EXF: {
        size_t r = o.extract_front(a), ex = std::min(a, T0);
        if (r != ex) FAILK("return", "returned %zu, reference %zu", r, ex);
        M.erase(0, ex); r_ = rel_front(lens, n, a, T0);
        break; }
    case K_EXB: {
        size_t r = o.extract_back(a), ex = std::min(a, T0);
        if (r != ex) FAILK("return", "returned %zu, reference %zu", r, ex);
        M.resize(T0 - ex); r_ = rel_back(lens, n, a, T0);
        break; }
    case K_EXF_BUF: case K_PIPE_TO_BUF: case K_CPY_TO_BUF: {
        char* buf = (char*)A.get(a); memset(buf, '~', a);
        size_t r = op.kind == K_EXF_BUF ? o.extract_front(a, (void*)buf) : op.kind == K_PIPE_TO_BUF ? o.pipe_to((void*)buf, a) : o.memcpy_to((void*)buf, a);
        size_t ex = std::min(a, T0);
        if (r != ex) FAILK("return", "returned %zu, reference %zu", r, ex);
        if (memcmp(buf, M.data(), ex)) FAILK("bytes", "buffer holds \"%.*s\", reference \"%.*s\"", (int)ex, buf, (int)ex, M.data());
        for (size_t i = ex; i < a; i++) if (buf[i] != '~') FAILK("dest-overwritten", "buffer byte %zu beyond the %zu delivered bytes was written", i, ex);
        if (op.kind != K_CPY_TO_BUF) M.erase(0, ex);
        r_ = rel_front(lens, n, a, T0);
        break; }
    case K_EXB_BUF: {
        char* buf = (char*)A.get(a); memset(buf, '~', a);
        size_t r = o.extract_back(a, (void*)buf), ex = std::min(a, T0);
        if (r != ex) FAILK("return", "returned %zu, reference %zu", r, ex);
        const char* want = M.data() + (T0 - ex);
        // bytes may sit at the start of the buffer or right-aligned in the requested n-byte window (see header comment)
        size_t at = memcmp(buf, want, ex) == 0 ? 0 : a - ex;
        if (memcmp(buf + at, want, ex)) FAILK("bytes", "buffer does not hold the extracted bytes \"%.*s\" at [0,%zu) nor at [%zu,%zu)", (int)ex, want, ex, a - ex, a);
        for (size_t i = 0; i < a; i++) if ((i < at || i >= at + ex) && buf[i] != '~') FAILK("dest-overwritten", "buffer byte %zu outside the delivered bytes was written", i);
        M.resize(T0 - ex); r_ = rel_back(lens, n, a, T0) * 2 + (at != 0);
        break; }
    case K_EXF_VIEW: case K_EXB_VIEW: {
        const bool front = op.kind == K_EXF_VIEW;
        int room = op.b; bool internal = vec && room == 0;        // IOVector allocates the out array itself when out->iovcnt == 0
        iovec* outarr = (iovec*)A.get(room * sizeof(iovec)); for (int i = 0; i < room; i++) outarr[i] = POISON;
        iovector_view out(outarr, room);
        ssize_t r = front ? o.extract_front(a, &out) : o.extract_back(a, &out);
        size_t ex = std::min(a, T0);
        int need = front ? pieces_front(lens, n, a) : pieces_back(lens, n, a);
        r_ = (front ? rel_front(lens, n, a, T0) : rel_back(lens, n, a, T0)) * 4 + (room == 0 ? 0 : room < need ? 1 : room == need ? 2 : 3);
        if (vec && a == 0) {                                        // wrapper returns before touching *out: out is not an output here
            if (r != 0) FAILK("return", "returned %zd for a zero request", r);
            break;
        }
        if (!internal && !(out.iov >= outarr && out.iovcnt >= 0 && out.iov + out.iovcnt <= outarr + room))
            FAILK("out-view-escapes", "out view [%p,+%d) is not inside its %d-entry array %p", (void*)out.iov, out.iovcnt, room, (void*)outarr);
        std::string so, now;
        if (r == -1) {
            // implementation-only failure (out of descriptor room): must be a real shortage, and nothing may be lost
            outcome = 1;
            if (internal || room >= need) FAILK("spurious-failure", "returned -1 although the out view has room %d >= %d pieces", internal ? n : room, need);
            if (!denote_raw(e, "out view", out.iov, out.iovcnt, so) || !denote_raw(e, "subject", EL(o), NE(o), now)) return false;
            if ((front ? so + now : now + so) != M) FAILK("failure-corrupts", "after -1: out \"%s\" remaining \"%s\" do not add up to \"%s\"", so.c_str(), now.c_str(), M.c_str());
            M = now;
            break;
        }
        if (r < 0 || (size_t)r != ex) FAILK("return", "returned %zd, reference %zu", r, ex);
        if (!denote_raw(e, "out view", out.iov, out.iovcnt, so)) return false;
        std::string want = front ? M.substr(0, ex) : M.substr(T0 - ex);
        if (so != want) FAILK("bytes", "out view denotes \"%s\", reference \"%s\"", so.c_str(), want.c_str());
        if (front) M.erase(0, ex); else M.resize(T0 - ex);
        break; }
    case K_EXFC: case K_EXBC: {
        const bool front = op.kind == K_EXFC;
        void* p = front ? o.extract_front_continuous(a) : o.extract_back_continuous(a);
        int edge = n > 0 ? (front ? lens[0] : lens[n - 1]) : -1;
        bool in_edge = n > 0 && (size_t)edge >= a;
        r_ = a == 0 ? 0 : (n == 0 ? 1 : a < (size_t)edge ? 2 : a == (size_t)edge ? 3 : a <= T0 ? 4 + (a == T0) : 6);
        if (a == 0) break;                                          // nothing to extract; the pointer value is meaningless
        if (p) {
            if (a > T0) FAILK("return", "non-null although %zu > total %zu", a, T0);
            const char* want = front ? M.data() : M.data() + (T0 - a);
            if (memcmp(p, want, a)) FAILK("bytes", "returned pointer holds \"%.*s\", reference \"%.*s\"", (int)a, (char*)p, (int)a, want);
            if (front) M.erase(0, a); else M.resize(T0 - a);
        } else {
            outcome = 1;
            // view: documented to look at the front/back ELEMENT only; IOVector: must succeed whenever n <= total
            if (vec ? a <= T0 : in_edge) FAILK("spurious-failure", "nullptr although %zu bytes are available (%s)", a, vec ? "total" : "edge element");
        }
        break; }
    case K_SLICE: {
        size_t cnt = a, off = op.b; int room = op.c; bool internal = vec && room == 0;
        iovec* outarr = (iovec*)A.get(room * sizeof(iovec)); for (int i = 0; i < room; i++) outarr[i] = POISON;
        iovector_view out(outarr, room);
        ssize_t r = o.slice(cnt, (off_t)off, &out);
        std::string E = off < T0 ? M.substr(off, cnt) : std::string();
        // elements the slice spans (first .. last touched, empty ones in between included)
        int span = 0;
        if (!E.empty()) { size_t ps = 0; int first = -1, last = -1; for (int i = 0; i < n; i++) { size_t pe = ps + lens[i]; if (first < 0 && pe > off) first = i; if (last < 0 && pe >= off + E.size()) last = i; ps = pe; } span = last - first + 1; }
        int roomeff = internal ? n : room;
        r_ = (off == 0 ? 0 : off >= T0 ? 3 : rel_front(lens, n, off, T0)) * 64 + (cnt == 0 ? 0 : off + cnt > T0 ? 4 : off + cnt == T0 ? 3 : rel_front(lens, n, off + cnt, T0)) * 8
             + (roomeff == 0 ? 0 : roomeff < span ? 1 : roomeff == span ? 2 : 3);
        if (vec && cnt == 0) { if (r != 0) FAILK("return", "returned %zd for an empty slice", r); break; }   // wrapper returns before touching *out
        if (r == -1) {
            outcome = 1;
            // -1 is the documented refusal of an out view WITHOUT descriptor room supplied by the caller.  IOVector::slice
            // sizes the out array itself when handed an empty view, so there a refusal is not the caller's shortage.
            if (internal) FAILK("spurious-failure", "returned -1 (error) although IOVector::slice allocates the out array itself; vector has %d elements, %zu bytes; reference result: %zu bytes", n, T0, E.size());
            if (roomeff != 0) FAILK("spurious-failure", "returned -1 although the out view has room %d", roomeff);
            if (out.iov != outarr || out.iovcnt != 0) FAILK("out-view-escapes", "refused slice changed the out view");
            break;
        }
        if (r < 0) FAILK("return", "returned %zd", r);
        if (!internal && !(out.iov == outarr && out.iovcnt >= 0 && out.iovcnt <= room))
            FAILK("out-view-escapes", "out view [%p,+%d) is not inside its %d-entry array %p", (void*)out.iov, out.iovcnt, room, (void*)outarr);
        std::string so; if (!denote_raw(e, "out view", out.iov, out.iovcnt, so)) return false;
        if ((size_t)r != so.size()) FAILK("return", "returned %zd but the out view denotes %zu bytes \"%s\"", r, so.size(), so.c_str());
        if (so != E) {
            // shorter than the model only because the out view ran out of descriptor room (implementation-only limit)
            bool prefix = so.size() < E.size() && E.compare(0, so.size(), so) == 0;
            if (!(prefix && out.iovcnt == roomeff && roomeff < span))
                FAILK("bytes", "out view denotes \"%s\", reference \"%s\" (room %d, slice spans %d elements)", so.c_str(), E.c_str(), roomeff, span);
            outcome = 2;
        }
        break; }
    case K_CPY_FROM_BUF: {
        char* buf = (char*)A.get(a); for (size_t i = 0; i < a; i++) buf[i] = char(fillbase(e.step) + i);
        std::string B(buf, a);
        size_t r = o.memcpy_from((const void*)buf, a), ex = std::min(a, T0);
        if (r != ex) FAILK("return", "returned %zu, reference %zu", r, ex);
        if (memcmp(buf, B.data(), a)) FAILK("source-modified", "the source buffer was written");
        M.replace(0, ex, B, 0, ex); r_ = rel_front(lens, n, a, T0);
        break; }
    case K_CPY_TO_VIEW: case K_CPY_FROM_VIEW: case K_PIPE_TO_VIEW: case K_PIPE_FROM_VIEW:
    case K_CPY_TO_IOV: case K_CPY_FROM_IOV: case K_PIPE_TO_IOV: case K_PIPE_FROM_IOV: {
        const Shape& ps = *op.p; const bool pvec = op.kind >= K_CPY_TO_IOV;
        std::string D; iovec tmp[4]; iovec* parr = nullptr; iovector_view pv; IOVector* pi = nullptr;
        if (!pvec && ps.null) { /* pv stays default-constructed: iov == nullptr, iovcnt == 0 */ }
        else if (!pvec) { parr = (iovec*)A.get((ps.n + 1) * sizeof(iovec)); build_blocks(A, ps, fillbase(e.step), parr, D); parr[ps.n] = POISON; pv.assign(parr, ps.n); }
        else { pi = A.newvec(); build_blocks(A, ps, fillbase(e.step), tmp, D); for (int i = 0; i < ps.n; i++) pi->push_back(tmp[i].iov_base, tmp[i].iov_len); }
        Snap psnap; if (pvec) psnap.take(*(iovector*)pi); else psnap.take(pv);
        const size_t Td = D.size(), ex = std::min(a, std::min(T0, Td));
        size_t r; std::string Dx = D; bool partner_const = true;
        switch (op.kind) {
        case K_CPY_TO_VIEW:   r = o.memcpy_to(&pv, a);            Dx.replace(0, ex, M, 0, ex); break;
        case K_CPY_TO_IOV:    r = x_cpy_to_iov(o, pi, a);         Dx.replace(0, ex, M, 0, ex); break;
        case K_CPY_FROM_VIEW: r = o.memcpy_from(&pv, a);          M.replace(0, ex, D, 0, ex); break;
        case K_CPY_FROM_IOV:  r = x_cpy_from_iov(o, pi, a);       M.replace(0, ex, D, 0, ex); break;
        case K_PIPE_TO_VIEW:  r = o.pipe_to(&pv, a);              Dx.replace(0, ex, M, 0, ex); M.erase(0, ex); break;
        case K_PIPE_TO_IOV:   r = x_pipe_to_iov(o, pi, a);        Dx.replace(0, ex, M, 0, ex); M.erase(0, ex); break;
        case K_PIPE_FROM_VIEW: r = o.pipe_from(&pv, a);           M.replace(0, ex, D, 0, ex); Dx.erase(0, ex); partner_const = false; break;
        default:              r = x_pipe_from_iov(o, pi, a);      M.replace(0, ex, D, 0, ex); Dx.erase(0, ex); partner_const = false; break;
        }
        if (r != ex) FAILK("return", "returned %zu, reference %zu (size %zu, this %zu bytes, other %zu bytes)", r, ex, a, T0, Td);
        std::string dn;
        if (pvec) { if (!denote_raw(e, "other vector", EL(*(iovector*)pi), NE(*(iovector*)pi), dn)) return false; }
        else if (!denote_raw(e, "other vector", pv.iov, pv.iovcnt, dn)) return false;
        if (dn != Dx) FAILK("other-vector", "other vector denotes \"%s\" afterwards, reference \"%s\" (was \"%s\")", dn.c_str(), Dx.c_str(), D.c_str());
        if (partner_const && !(pvec ? psnap.same(*(iovector*)pi) : psnap.same(pv))) FAILK("other-descriptors-modified", "descriptors of the other vector changed");
        // relation class: size vs transferable amount, which side is shorter, where the transfer ends relative to both element structures
        size_t lim = std::min(T0, Td);
        int sr = a == 0 ? 0 : a == SIZE_MAX ? 4 : a < lim ? 1 : a == lim ? 2 : 3;
        int plens[4]; for (int i = 0; i < ps.n; i++) plens[i] = ps.len[i];
        r_ = sr * 1000 + (T0 < Td ? 0 : T0 == Td ? 1 : 2) * 100 + rel_front(lens, n, ex, T0) * 10 + rel_front(plens, ps.n, ex, Td) + (ps.zl ? 5000 : 0) + std::min(ps.n, 3) * 10000;
        break; }
    case K_TRUNCATE: {
        size_t r = x_truncate(o, a);
        if (r != a) FAILK("return", "returned %zu, reference %zu", r, a);
        std::string now; if (!denote_raw(e, "subject", EL(o), NE(o), now)) return false;
        size_t keep = std::min(a, T0);
        if (now.size() != a || now.compare(0, keep, M, 0, keep)) FAILK("remaining", "denotes %zu bytes \"%.*s\", reference %zu bytes starting with \"%.*s\"", now.size(), (int)std::min(now.size(), keep), now.data(), a, (int)keep, M.data());
        M.resize(keep);
        if (a > T0) { fill_range(o, T0, a, '#'); M.append(a - T0, '#'); }        // grown part: content unspecified, make it known
        r_ = rel_front(lens, n, a, T0);
        break; }
    case K_PUSH_BACK: case K_PUSH_FRONT: {
        char* blk = (char*)A.get(a); for (size_t i = 0; i < a; i++) blk[i] = char('$' + e.step * 4 + i);
        bool front = op.kind == K_PUSH_FRONT; int room = front ? x_front_free(o) : x_back_free(o);
        size_t r = front ? x_push_front(o, blk, a) : x_push_back(o, blk, a);
        if (room > 0) { if (r != a) FAILK("return", "returned %zu, reference %zu", r, a); if (front) M.insert(0, blk, a); else M.append(blk, a); }
        else { outcome = 1; if (r != 0) FAILK("return", "returned %zu with no free descriptor", r); }
        r_ = a;
        break; }
    case K_PUSH_BACK_ALLOC: case K_PUSH_FRONT_ALLOC: {
        bool front = op.kind == K_PUSH_FRONT_ALLOC; int room = front ? x_front_free(o) : x_back_free(o);
        size_t r = front ? x_push_front_alloc(o, a) : x_push_back_alloc(o, a);
        if (room > 0 && a > 0) {
            if (r != a) FAILK("return", "returned %zu, reference %zu", r, a);
            if (o.sum() != T0 + a) FAILK("remaining", "sum %zu after pushing %zu bytes onto %zu", o.sum(), a, T0);
            if (front) { fill_range(o, 0, a, '#'); M.insert(0, a, '#'); } else { fill_range(o, T0, T0 + a, '#'); M.append(a, '#'); }
        } else { outcome = 1; if (r != 0) FAILK("return", "returned %zu", r); }
        r_ = a;
        break; }
    case K_POP_FRONT: case K_POP_BACK: {
        bool front = op.kind == K_POP_FRONT;
        size_t r = front ? x_pop_front(o) : x_pop_back(o);
        size_t ex = n == 0 ? 0 : front ? lens[0] : lens[n - 1];
        if (r != ex) FAILK("return", "returned %zu, reference %zu", r, ex);
        if (front) M.erase(0, ex); else M.resize(T0 - ex);
        r_ = n == 0 ? 0 : ex == 0 ? 1 : 2;
        break; }
    case K_EXF_IOV: case K_EXB_IOV: {
        bool front = op.kind == K_EXF_IOV;
        IOVector* d = A.newvec();
        ssize_t r = front ? x_exf_iov(o, a, d) : x_exb_iov(o, a, d);
        size_t ex = std::min(a, T0);
        if (r < 0 || (size_t)r != ex) FAILK("return", "returned %zd, reference %zu", r, ex);
        std::string so; if (!denote_raw(e, "destination IOVector", EL(*(iovector*)d), NE(*(iovector*)d), so)) return false;
        std::string want = front ? M.substr(0, ex) : M.substr(T0 - ex);
        if (so != want) FAILK("bytes", "destination denotes \"%s\", reference \"%s\"", so.c_str(), want.c_str());
        if (front) M.erase(0, ex); else M.resize(T0 - ex);
        r_ = front ? rel_front(lens, n, a, T0) : rel_back(lens, n, a, T0);
        break; }
    default: abort();
    }

    // the vector must now denote exactly the remaining bytes
    std::string now; if (!denote_raw(e, "subject", EL(o), NE(o), now)) return false;
    if (e.c.verbose) fprintf(stderr, "          -> \"%s\" (%d elements), reference \"%s\"\n", now.c_str(), NE(o), M.c_str());
    if (now != M) FAILK("remaining", "vector denotes \"%s\" afterwards, reference \"%s\" (before \"%s\")", now.c_str(), M.c_str(), before.c_str());
    if (KCONSTDESC[op.kind] && !snap.same(o)) FAILK("descriptors-modified", "a const operation changed the vector's descriptors");
    rel = seqx::mix(seqx::mix(seqx::mix(op.kind, r_), outcome), (zl ? 8 : 0) + std::min(n, 3) + (vec ? 16 : 0));
    return true;
}

// ---------------------------------------------------------------------------------------------------------- alphabets
struct Alpha {
    int extra;                          // counts 0..T+extra
    std::vector<int> rooms;             // out-view room for extract_front/back(n, view)
    std::vector<int> slice_rooms; int slice_counts;   // slice_counts 0: every count 0..T+extra; 1: {1,2,T+1}
    std::vector<const Shape*> partners; // shapes of the other vector
    int size_mode;                      // 0: 0..max(T,Td)+1 and SIZE_MAX; 1: `sizes` and SIZE_MAX
    std::vector<int> sizes;
    std::vector<int> push_sizes;
    bool iov_partner_copy;              // also memcpy_to/from(iovector*) (thin wrappers)
    std::vector<Op> cache[2][16]; bool have[2][16];
    Alpha() { memset(have, 0, sizeof have); }
};

static void add(std::vector<Op>& v, int kind, int a = 0, int b = 0, int c = 0, const Shape* p = nullptr) {
    Op o; o.kind = kind; o.a = a; o.b = b; o.c = c; o.p = p; op_str(o.str, sizeof o.str, kind, a, b, c, p); v.push_back(o);
}

static const std::vector<Op>& ops_for(Alpha& al, bool vec, int T) {
    if (al.have[vec][T]) return al.cache[vec][T];
    std::vector<Op>& v = al.cache[vec][T]; al.have[vec][T] = true;
    v.reserve(al.partners.size() * 130 + 2500);
    int K = T + al.extra;
    add(v, K_SUM);
    for (int a = 0; a <= K; a++) {
        add(v, K_SHRINK_TO, a);
        if (!vec) add(v, K_SHRINK_LT, a);
        add(v, K_EXF, a); add(v, K_EXF_BUF, a);
        add(v, K_EXB, a); add(v, K_EXB_BUF, a);
        for (int r : al.rooms) { add(v, K_EXF_VIEW, a, r); add(v, K_EXB_VIEW, a, r); }
        add(v, K_EXFC, a); add(v, K_EXBC, a);
        add(v, K_CPY_TO_BUF, a); add(v, K_CPY_FROM_BUF, a); add(v, K_PIPE_TO_BUF, a);
        if (vec) { add(v, K_TRUNCATE, a); add(v, K_EXF_IOV, a); add(v, K_EXB_IOV, a); }
    }
    std::vector<int> counts;
    if (al.slice_counts == 0) for (int a = 0; a <= K; a++) counts.push_back(a); else { counts = {1, 2, T + 1}; }
    for (int cnt : counts) for (int off = 0; off <= K; off++) for (int r : al.slice_rooms) add(v, K_SLICE, cnt, off, r);
    for (const Shape* p : al.partners) {
        std::vector<int> sizes;
        if (al.size_mode == 0) { for (int s = 0; s <= std::max(T, p->total) + 1; s++) sizes.push_back(s); } else sizes = al.sizes;
        sizes.push_back(-1);
        for (int s : sizes) {
            add(v, K_CPY_TO_VIEW, s, 0, 0, p); add(v, K_CPY_FROM_VIEW, s, 0, 0, p); add(v, K_PIPE_TO_VIEW, s, 0, 0, p); add(v, K_PIPE_FROM_VIEW, s, 0, 0, p);
            if (vec) {
                add(v, K_PIPE_TO_IOV, s, 0, 0, p); add(v, K_PIPE_FROM_IOV, s, 0, 0, p);
                if (al.iov_partner_copy) { add(v, K_CPY_TO_IOV, s, 0, 0, p); add(v, K_CPY_FROM_IOV, s, 0, 0, p); }
            }
        }
    }
    if (vec) {
        for (int s : al.push_sizes) { add(v, K_PUSH_BACK, s); add(v, K_PUSH_FRONT, s); if (s == 1 || s == 2) { add(v, K_PUSH_BACK_ALLOC, s); add(v, K_PUSH_FRONT_ALLOC, s); } }
        add(v, K_POP_FRONT); add(v, K_POP_BACK);
    }
    return v;
}

// ---------------------------------------------------------------------------------------------------------- cases
// target nullview only: a SIGSEGV inside the operation is turned into an ordinary violation with its own signature
static sigjmp_buf g_jb; static volatile int g_guard_armed = 0; static bool g_use_guard = false;
static void segv_handler(int, siginfo_t*, void*) {
    if (g_guard_armed) { g_guard_armed = 0; siglongjmp(g_jb, 1); }
    signal(SIGSEGV, SIG_DFL);       // not ours: fault again with the default action, the parent classifies the crash
}

static void run_case(seqx::Ctx& c, bool vec, const Shape& s, const Op* const* ops, int nops) {
    static const bool dry = getenv("C14_DRY") != nullptr;      // debugging aid: walk the enumeration without executing (counts the cases)
    if (dry) return;
    Arena A; Env e{c, A, 0};
    std::string M; uint64_t cls = seqx::mix(vec, nops), rel = 0;
    iovec tmp[4];
    if (g_use_guard) {
        if (sigsetjmp(g_jb, 1)) {
            c.fail("empty-null-view:segv", "SIGSEGV: the operation dereferenced the descriptor pointer of an EMPTY vector (default-constructed iovector_view: iov == nullptr, iovcnt == 0); reference: the empty byte string, result 0");
            c.cls(seqx::mix(cls, 0x5e6)); return;
        }
        g_guard_armed = 1;
    }
    if (!vec) {
        iovec* arr = s.null ? nullptr : (iovec*)A.get((s.n + 1) * sizeof(iovec));        // one spare, poisoned descriptor slot (see header comment)
        if (!s.null) { build_blocks(A, s, 'A', arr, M); arr[s.n] = POISON; }
        iovector_view v(arr, s.n);
        for (int k = 0; k < nops; k++) { e.step = k; if (!apply(e, v, M, *ops[k], rel)) { cls = seqx::mix(cls, 0xbad); break; } if (k >= nops - 2) cls = seqx::mix(cls, k == nops - 1 ? rel : (uint64_t)KGROUP[ops[k]->kind]); }
    } else {
        IOVector* v = A.newvec();
        build_blocks(A, s, 'A', tmp, M);
        for (int i = 0; i < s.n; i++) v->push_back(tmp[i].iov_base, tmp[i].iov_len);
        iovector& o = *v;
        for (int k = 0; k < nops; k++) { e.step = k; if (!apply(e, o, M, *ops[k], rel)) { cls = seqx::mix(cls, 0xbad); break; } if (k >= nops - 2) cls = seqx::mix(cls, k == nops - 1 ? rel : (uint64_t)KGROUP[ops[k]->kind]); }
    }
    g_guard_armed = 0;
    c.cls(cls);
}

static void enum_depth(seqx::Ctx& c, Alpha& al, const std::vector<const Shape*>& shapes, int depth) {
    for (int vec = 0; vec <= 1; vec++) {
        const char* sub = vec ? "I" : "V";
        for (const Shape* sp : shapes) {
            const Shape& s = *sp;
            const std::vector<Op>& L = ops_for(al, vec, s.total);
            const Op* seq[3];
            if (depth == 1) {
                for (auto& o1 : L) { if (!c.begin("%s shape=%s | %s", sub, s.str, o1.str)) continue; seq[0] = &o1; run_case(c, vec, s, seq, 1); }
            } else if (depth == 2) {
                for (auto& o1 : L) { if (!KMUT[o1.kind]) continue;
                    for (auto& o2 : L) { if (!c.begin("%s shape=%s | %s | %s", sub, s.str, o1.str, o2.str)) continue; seq[0] = &o1; seq[1] = &o2; run_case(c, vec, s, seq, 2); } }
            } else {
                for (auto& o1 : L) { if (!KMUT[o1.kind]) continue;
                    for (auto& o2 : L) { if (!KMUT[o2.kind]) continue;
                        for (auto& o3 : L) { if (!c.begin("%s shape=%s | %s | %s | %s", sub, s.str, o1.str, o2.str, o3.str)) continue; seq[0] = &o1; seq[1] = &o2; seq[2] = &o3; run_case(c, vec, s, seq, 3); } } }
            }
        }
    }
}

static std::vector<const Shape*> pick_shapes(int maxn, int maxlen) {
    std::vector<const Shape*> v;
    for (auto& s : g_shapes) { bool ok = s.n <= maxn; for (int i = 0; i < s.n; i++) ok = ok && s.len[i] <= maxlen; if (ok) v.push_back(&s); }
    return v;
}

}  // namespace

static void seqx_enumerate(seqx::Ctx& c, bool thorough) {
    g_shapes = make_shapes(4, 3);
#if C14_PART == 1
    // every single operation, full alphabet: counts/offsets 0..total+2, room 0..5, every partner shape (<=2 elements quick, <=4 thorough)
    static Alpha full;
    full.extra = 2; full.rooms = {0, 1, 2, 3, 4, 5}; full.slice_rooms = {0, 1, 2, 3, 4, 5}; full.slice_counts = 0;
    full.partners = pick_shapes(thorough ? 4 : 2, 3); full.size_mode = 0; full.push_sizes = {0, 1, 2, 3}; full.iov_partner_copy = true;
    enum_depth(c, full, pick_shapes(4, 3), 1);
#elif C14_PART == 3
    // The canonical empty view: default-constructed iovector_view (iov == nullptr, iovcnt == 0), as the subject of every
    // operation and as the other vector of every two-vector operation.  Kept in its own target: the main targets give
    // descriptor arrays a spare slot on purpose (the property is about the element buffers), which hides that
    // iov_iterator's constructor reads view.iov[0] even when iovcnt == 0 - harmless with a real array, a crash with nullptr.
    (void)thorough;
    struct sigaction sa; memset(&sa, 0, sizeof sa); sa.sa_sigaction = segv_handler; sa.sa_flags = SA_SIGINFO | SA_NODEFER; sigaction(SIGSEGV, &sa, nullptr);
    g_use_guard = true;
    static Alpha an;
    an.extra = 2; an.rooms = {0, 1}; an.slice_rooms = {0, 1}; an.slice_counts = 0;
    for (const char* p : {"[]", "[1]", "[0,2]"}) an.partners.push_back(find_shape(p));
    an.partners.push_back(&g_null);
    an.size_mode = 1; an.sizes = {0, 1, 2, 3}; an.push_sizes = {1}; an.iov_partner_copy = false;
    const Op* seq[1];
    for (auto& o1 : ops_for(an, false, 0)) { if (!c.begin("V shape={nullptr,0} | %s", o1.str)) continue; seq[0] = &o1; run_case(c, false, g_null, seq, 1); }
    for (int vec = 0; vec <= 1; vec++)
        for (const char* sh : {"[]", "[1]", "[0,2]"}) {
            const Shape* s = find_shape(sh);
            for (auto& o1 : ops_for(an, vec, s->total)) {
                if (o1.p != &g_null || o1.kind >= K_CPY_TO_IOV) continue;
                if (!c.begin("%s shape=%s | %s", vec ? "I" : "V", s->str, o1.str)) continue;
                seq[0] = &o1; run_case(c, vec, *s, seq, 1);
            }
        }
#else
    // sequences of 2 operations (the first one mutating, the second any)
    static Alpha a2, b2;
    a2.extra = 2; a2.rooms = {1, 2, 5}; a2.slice_rooms = {1, 5}; a2.slice_counts = 0;
    for (const char* p : {"[]", "[0]", "[1]", "[3]", "[1,2]", "[2,0,1]", "[0,1,0,3]"}) a2.partners.push_back(find_shape(p));
    a2.size_mode = 0; a2.push_sizes = {0, 1, 2}; a2.iov_partner_copy = false;
    b2.extra = 2; b2.rooms = {1, 5}; b2.slice_rooms = {5}; b2.slice_counts = 0;      // smaller alphabet for the largest shapes of the tier
    for (const char* p : {"[]", "[1]", "[1,2]", "[0,1,0,3]"}) b2.partners.push_back(find_shape(p));
    b2.size_mode = 0; b2.push_sizes = {0, 1, 2}; b2.iov_partner_copy = false;
    std::vector<const Shape*> upto2, upto3, only3small, only4;
    for (auto& s : g_shapes) {
        if (s.n <= 2) upto2.push_back(&s); if (s.n <= 3) upto3.push_back(&s); if (s.n == 4) only4.push_back(&s);
        if (s.n == 3 && s.len[0] <= 2 && s.len[1] <= 2 && s.len[2] <= 2) only3small.push_back(&s);
    }
    if (!thorough) {
        enum_depth(c, a2, upto2, 2);
        enum_depth(c, a2, only3small, 2);
    } else {
        enum_depth(c, a2, upto3, 2);
        enum_depth(c, b2, only4, 2);
        // sequences of 3 operations (the first two mutating), reduced alphabet
        static Alpha a3;
        a3.extra = 1; a3.rooms = {2}; a3.slice_rooms = {5}; a3.slice_counts = 1;
        for (const char* p : {"[]", "[1,0,2]"}) a3.partners.push_back(find_shape(p));
        a3.size_mode = 1; a3.sizes = {0, 1, 3}; a3.push_sizes = {0, 2}; a3.iov_partner_copy = false;
        enum_depth(c, a3, pick_shapes(3, 2), 3);
    }
#endif
}

#if C14_PART == 1
SEQX_MAIN("C14", "single", "every single operation of iovector_view (V) and IOVector (I) on every shape of 0..4 elements with element sizes {0,1,2,3}: sum, shrink_to, shrink_less_than, truncate, extract_front/back (discard | to buffer | to out-view with room 0..5 | to a fresh IOVector), extract_front/back_continuous, slice(count,offset,room 0..5), memcpy_to/from and pipe_to/from (flat buffer | view or IOVector of every shape with <=2 (quick) / <=4 (thorough) elements), push_back/front (buffer | allocating), pop_front/back; counts and offsets 0..total+2, sizes 0..max(total,other total)+1 and SIZE_MAX; reference = std::string of the concatenated elements; distinct = (object kind, op kind, relation of the count to the element boundaries [zero/inside/on boundary/total/beyond], room vs pieces, outcome, zero-length element present, #elements capped at 3, for two-vector ops: size vs transferable, which side is shorter, where the transfer ends in both element structures)")
#elif C14_PART == 3
SEQX_MAIN("C14", "nullview", "the default-constructed empty iovector_view (iov == nullptr, iovcnt == 0) as the subject of every single operation (counts 0..2, room {0,1}, other vectors {[],[1],[0,2],null}, sizes {0,1,2,3,SIZE_MAX}) and as the other vector of memcpy_to/from and pipe_to/from on V and I subjects of shapes {[],[1],[0,2]}; reference = the empty byte string; distinct = (object kind, op kind, relation class, crashed or not)")
#else
SEQX_MAIN("C14", "seq", "every sequence of 2 operations (first one mutating) on V and I: quick = shapes of 0..2 elements (sizes {0,1,2,3}) and of 3 elements (sizes {0,1,2}) with alphabet A; thorough = 0..3 elements with A and 4 elements with B, element sizes {0,1,2,3}; A: counts/offsets 0..total+2, out-view room {1,2,5}, slice room {1,5}, other-vector shapes {[],[0],[1],[3],[1,2],[2,0,1],[0,1,0,3]}, sizes 0..max(total,other)+1 and SIZE_MAX; B: room {1,5}, slice room {5}, other-vector shapes {[],[1],[1,2],[0,1,0,3]}; thorough adds every sequence of 3 operations (first two mutating) over shapes of 0..3 elements with sizes {0,1,2}: counts 0..total+1, room {2}, slice counts {1,2,total+1} room 5, other-vector shapes {[],[1,0,2]}, sizes {0,1,3,SIZE_MAX}; the model is compared after every operation; distinct = (object kind, sequence length, family of the op before the last, full relation class of the last op as in target single)")
#endif
